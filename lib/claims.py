"""What is claimed per property (text for MANIFEST.json)."""
HOOK_COMMITS = ["4b3cca7"]
NOTE = "Trusted: the harness reference models (cross-checked two ways where possible), rustc/std, catch_unwind as panic boundary. Held only on the executions counted in the evidence file."
CLAIMS = {
 "C01": {"text": "Exhaustive runtime comparison of the real conversions with an independent calendar model over all 3,652,059 day numbers and the stated (y,m,d) grid (both complete finite quantifiers), plus error kinds, ordering and hashing; exhaustive for the property's own quantifier.",
         "design_ref": "DESIGN.md sec. 5 C01", "note": NOTE, "technique": "runtime monitoring: reference-model oracle over an exhaustive enumeration of the real API"},
 "C19": {"text": "Every picture up to length 4 (quick) / 5 (thorough) over a 42-symbol alphabet plus generated long pictures is run through the real picture compiler and formatter while a reference longest-match tokenizer/renderer watches acceptance, error kind and the rendered probe text; native in two arithmetic profiles.",
         "design_ref": "DESIGN.md sec. 5 C19", "note": NOTE, "technique": "runtime monitoring: differential oracle (reference tokenizer + renderer) over enumerated and generated pictures"},
}
NOT_APPLICABLE = {pid: "check not built yet (work in progress in this session; will be claimed once its monitor exists)"
                  for pid in ["C%02d" % i for i in range(1, 20)] if pid not in CLAIMS}
