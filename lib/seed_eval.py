#!/usr/bin/env python3
"""Runs the registered check(s) against every seeded change and records the outcome in seeded/<id>/meta.json.
usage: lib/seed_eval.py [ids...]   (env VERIF_DEV_NATIVE_ONLY=1 skips sanitizer legs; recorded)"""
import json, os, re, subprocess, sys, time
ROOT = os.path.dirname(os.path.dirname(os.path.abspath(__file__)))
ids = sys.argv[1:] or sorted(os.listdir(os.path.join(ROOT, "seeded")))
for sid in ids:
    d = os.path.join(ROOT, "seeded", sid)
    meta = json.load(open(os.path.join(d, "meta.json")))
    props = [meta["property"]] + meta.get("also_run", [])
    if subprocess.run(["git", "-C", "/repo", "diff", "--quiet"]).returncode != 0:
        sys.exit("/repo dirty")
    if subprocess.run(["git", "-C", "/repo", "apply", os.path.join(d, "patch.diff")]).returncode != 0:
        sys.exit("patch does not apply: " + sid)
    try:
        for p in props:
            t0 = time.time()
            r = subprocess.run([os.path.join(ROOT, "check"), p, "quick"], cwd=ROOT, stdout=subprocess.PIPE, stderr=subprocess.STDOUT)
            out = r.stdout.decode("utf-8", "replace")
            keys = re.findall(r"^  key=(.+?) count=(\d+) leg=", out, re.M)
            meta["detection"][p] = {"cmd": "./check %s quick" % p, "exit": r.returncode, "violation_keys": [k for k, _ in keys][:12],
                                    "first_detail": (re.findall(r"^  (\[.*)$", out, re.M) or [""])[0][:300],
                                    "native_only": os.environ.get("VERIF_DEV_NATIVE_ONLY") == "1", "wall_s": round(time.time() - t0, 1), "repo_head": subprocess.run(["git", "-C", "/repo", "rev-parse", "--short", "HEAD"], stdout=subprocess.PIPE).stdout.decode().strip()}
            print(sid, p, "exit", r.returncode, [k for k, _ in keys][:3], flush=True)
    finally:
        subprocess.run(["git", "-C", "/repo", "checkout", "--", "."])
    json.dump(meta, open(os.path.join(d, "meta.json"), "w"), indent=1)
