//! C04 - formatting renders every field exactly as the picture specifies.
use crate::cal::{cal, civil_from_days};
use crate::core::*;
use crate::tok::*;
use serde_json::{json, Value};
use sqldatetime::Formatter;

#[derive(Clone, Copy)]
pub struct F<'a> {
    pub v: V,
    pub pic: &'a str,
    pub toks: &'a [Tok],
    pub f: &'a Formatter,
    /// go through the type's own `format(picture)` method + Display instead of `Formatter::format`
    pub via_display: bool,
    /// history: first render the same value through Display into a sink that fails after this many bytes (-1 = no such step);
    /// -2 = the judged rendering goes into a sink whose `write_str` itself formats values with the library (a log writer
    /// stamping every piece); -3 = first a rendering into a sink that panics (contained), then the judged rendering
    pub fail_cap: i32,
}
/// a sink that formats with the library inside `write_str`, then stores the piece
struct Reentrant {
    out: String,
}
impl std::fmt::Write for Reentrant {
    fn write_str(&mut self, s: &str) -> std::fmt::Result {
        use std::fmt::Write;
        let d = sqldatetime::Date::try_from_ymd(2021, 3, 11).expect("date");
        let mut tmp = String::new();
        // (a blank run whose length depends on the piece: sometimes longer than anything this thread rendered before)
        let n = 2 + (s.len() * 7 + self.out.len()) % 61;
        if let Ok(f) = Formatter::try_new(&format!("DD{}Mon", " ".repeat(n))) {
            let mut t2 = String::new();
            let _ = f.format(d, &mut t2);
            if t2 != format!("11{}Mar", " ".repeat(n)) {
                return Err(std::fmt::Error);
            }
        }
        if let Ok(f) = Formatter::try_new("YYYY-MM-DD") {
            let _ = f.format(d, &mut tmp);
        }
        if let Ok(x) = d.format("DD.MM.YYYY DAY") {
            let _ = write!(tmp, "{}", x);
        }
        if tmp != "2021-03-1111.03.2021 THURSDAY" {
            return Err(std::fmt::Error);
        }
        self.out.push_str(s);
        Ok(())
    }
}
struct PanickingFmt;
impl std::fmt::Write for PanickingFmt {
    fn write_str(&mut self, _: &str) -> std::fmt::Result {
        panic!("the sink panics (harness, contained)")
    }
}
/// a fmt sink with room for `cap` bytes
struct LimitedFmt {
    cap: usize,
}
impl std::fmt::Write for LimitedFmt {
    fn write_str(&mut self, s: &str) -> std::fmt::Result {
        if s.len() > self.cap {
            self.cap = 0;
            return Err(std::fmt::Error);
        }
        self.cap -= s.len();
        Ok(())
    }
}
fn render_into_limited(st: &mut Stats, c: &F, lv: &LV) {
    use std::fmt::Write;
    if c.fail_cap == -3 {
        // caller code panics inside the sink; the panic is contained; the library must be usable afterwards
        let (lv2, f2) = (*lv, c.f);
        let _ = guard(move || {
            let _ = lv2.format_into(f2, &mut PanickingFmt);
        });
        st.bump("renderings into a panicking sink (contained)");
        return;
    }
    let mut sink = LimitedFmt { cap: c.fail_cap.max(0) as usize };
    macro_rules! via {
        ($op:expr, $x:expr) => {{
            st.op($op);
            match $x.format(c.pic) {
                Ok(d) => write!(sink, "{}", d).is_ok(),
                Err(_) => true,
            }
        }};
    }
    let ok = match *lv {
        LV::Date(x) => via!(Op::D_format, x),
        LV::Time(x) => via!(Op::T_format, x),
        LV::Ts(x) => via!(Op::TS_format, x),
        LV::Ora(x) => via!(Op::O_format, x),
        LV::YM(x) => via!(Op::YM_format, x),
        LV::DT(x) => via!(Op::DT_format, x),
    };
    st.bump(if ok { "renderings into the limited sink that fitted (or were refused)" } else { "renderings into the limited sink that failed" });
}
impl<'a> Case for F<'a> {
    fn to_json(&self) -> Value {
        json!({"kind": "format", "value": self.v.to_json(), "show": self.v.show(), "picture": self.pic, "via_display": self.via_display, "fail_cap": self.fail_cap})
    }
}

pub fn class(t: &Tok) -> &'static str {
    match t {
        Tok::Year(_) => "year",
        Tok::MM => "MM",
        Tok::Mon(_) => "MON",
        Tok::Month(_) => "MONTH",
        Tok::DD => "DD",
        Tok::DDD => "DDD",
        Tok::D => "D",
        Tok::Day(_) => "DAY",
        Tok::Dy(_) => "DY",
        Tok::HH12 => "HH12",
        Tok::HH24 => "HH24",
        Tok::MI => "MI",
        Tok::SS => "SS",
        Tok::FF(_) => "FF",
        Tok::Mer { .. } => "meridian",
        Tok::W => "W",
        Tok::WW => "WW",
        Tok::T => "T",
        Tok::Punct(_) => "punctuation",
        Tok::Blank(_) => "blank",
    }
}
fn pic_class(toks: &[Tok]) -> &'static str {
    let fields: Vec<&Tok> = toks.iter().filter(|t| !matches!(t, Tok::Punct(_) | Tok::Blank(_) | Tok::T)).collect();
    if fields.len() == 1 {
        class(fields[0])
    } else if fields.is_empty() && !toks.is_empty() {
        class(&toks[0])
    } else {
        "composite"
    }
}

fn lib_format(st: &mut Stats, c: &F, lv: &LV) -> Result<String, String> {
    use std::fmt::Write;
    if c.fail_cap == -2 {
        let mut sink = Reentrant { out: String::new() };
        st.bump("renderings into a sink that re-enters the library");
        st.op(Op::F_format);
        return lv.format_into(c.f, &mut sink).map(|_| sink.out);
    }
    if !c.via_display {
        st.op(Op::F_format);
        return lv.format_with(c.f);
    }
    let mut s = String::new();
    macro_rules! via {
        ($op:expr, $x:expr) => {{
            st.op($op);
            match $x.format(c.pic) {
                Ok(d) => write!(s, "{}", d).map(|_| s).map_err(|_| "fmt::Error".to_string()),
                Err(e) => Err(format!("{:?}", e)),
            }
        }};
    }
    match *lv {
        LV::Date(x) => via!(Op::D_format, x),
        LV::Time(x) => via!(Op::T_format, x),
        LV::Ts(x) => via!(Op::TS_format, x),
        LV::Ora(x) => via!(Op::O_format, x),
        LV::YM(x) => via!(Op::YM_format, x),
        LV::DT(x) => via!(Op::DT_format, x),
    }
}

pub fn check(st: &mut Stats, c: &F) {
    let lv = match c.v.to_lib() {
        Some(x) => x,
        None => {
            st.skipped += 1;
            return;
        }
    };
    if c.fail_cap >= 0 || c.fail_cap == -3 {
        render_into_limited(st, c, &lv);
    }
    let real = lib_format(st, c, &lv);
    let exp = render(&c.v, c.toks);
    let ty = c.v.ty().name();
    match (real, exp) {
        (Ok(text), Ok(e)) => {
            if text != e && !texts_agree(&text, &c.v, c.toks) {
                st.fail(format!("C04/{}/{}/wrong-text", ty, pic_class(c.toks)), format!("{} under {:?}: got {:?} expected {:?}", c.v.show(), short(c.pic), short(&text), short(&e)));
            }
        }
        (Ok(text), Err(())) => st.fail(format!("C04/{}/{}/text-for-inapplicable-token", ty, first_inapplicable(c)), format!("{} under {:?}: got text {:?}, an error is required", c.v.show(), short(c.pic), short(&text))),
        (Err(e), Ok(x)) => st.fail(format!("C04/{}/{}/error-for-applicable-picture", ty, pic_class(c.toks)), format!("{} under {:?}: {} ; expected {:?}", c.v.show(), short(c.pic), e, short(&x))),
        (Err(_), Err(())) => {}
    }
}
fn first_inapplicable(c: &F) -> &'static str {
    let ty = c.v.ty();
    c.toks.iter().find(|t| !ty.applies(t)).map(class).unwrap_or("?")
}
fn short(s: &str) -> String {
    if s.len() > 160 {
        format!("{}..[{} bytes]", &s[..140], s.len())
    } else {
        s.to_string()
    }
}

pub struct Pic {
    pub text: String,
    pub toks: Vec<Tok>,
    pub f: Formatter,
}
pub fn pic(st: &mut Stats, p: &str, reject_key: Option<&str>) -> Option<Pic> {
    let toks = tokenize(p.as_bytes())?;
    let f = compile_picture(st, p, reject_key)?;
    Some(Pic { text: p.to_string(), toks, f })
}
fn pics(st: &mut Stats, list: &[&str]) -> Vec<Pic> {
    st.stratum("pictures (compiled inside the panic boundary)", true);
    let mut v = vec![];
    for p in list {
        if let Some(x) = pic(st, p, Some("C04/documented-token-picture-rejected")) {
            v.push(x);
        }
    }
    v
}

pub const DATE_PICS: &[&str] = &["YYYY", "YYY", "YY", "Y", "yyyy", "MM", "mm", "MON", "Mon", "mon", "mON", "MONTH", "Month", "month", "mONTH", "DD", "dd", "DDD", "ddd", "D", "d", "DAY", "Day", "day", "dAY",
    "DY", "Dy", "dy", "dY", "W", "w", "WW", "ww"];
pub const TIME_PICS: &[&str] = &["HH", "hh", "HH12", "hh12", "HH24", "hh24", "MI", "mi", "SS", "ss", "AM", "PM", "am", "pm", "Am", "aM", "Pm", "pM", "A.M.", "P.M.", "a.m.", "p.m.", "A.m.", "a.M.", "P.m.", "p.M."];
pub const FF_PICS: &[&str] = &["FF", "FF1", "FF2", "FF3", "FF4", "FF5", "FF6", "FF7", "FF8", "FF9", "ff", "ff3"];

fn v_date(n: i32) -> V {
    let (y, m, d) = cal().of(n);
    V::Date(y, m, d)
}
fn tod_fields(us: i64) -> (u32, u32, u32, u32) {
    ((us / 3_600_000_000) as u32, (us / 60_000_000 % 60) as u32, (us / 1_000_000 % 60) as u32, (us % 1_000_000) as u32)
}

/// random value of a type (boundary-biased)
pub fn rand_value(rng: &mut Rng, ty: Ty) -> V {
    let day = |rng: &mut Rng| -> i32 {
        match rng.below(6) {
            0 => *rng.pick(&[MIN_DAY, MIN_DAY + 1, MAX_DAY, MAX_DAY - 1, 0, -1, 1, 11_016, 10_957]),
            1 => {
                // a month/year end
                let y = rng.range_i64(1, 9999);
                let m = rng.range_i64(1, 12);
                let d = if rng.chance(1, 2) { crate::cal::dim(y, m as u32) as i64 } else { 1 };
                crate::cal::days_from_civil(y, m, d) as i32
            }
            _ => rng.range_i64(MIN_DAY as i64, MAX_DAY as i64) as i32,
        }
    };
    let tod = |rng: &mut Rng| -> i64 {
        match rng.below(5) {
            0 => *rng.pick(&[0, 1, 999_999, 1_000_000, 43_199_999_999, 43_200_000_000, 43_200_000_001, DAY_US - 1, DAY_US - 1_000_000, 3_599_999_999, 3_600_000_000, 46_799_999_999]),
            1 => rng.range_i64(0, 86_399) * 1_000_000 + *rng.pick(&[0, 1, 9, 10, 99, 100, 999, 1000, 9_999, 10_000, 99_999, 100_000, 999_999, 500_000, 123_456, 120_000, 100_001]),
            _ => rng.range_i64(0, DAY_US - 1),
        }
    };
    match ty {
        Ty::Date => {
            let (y, m, d) = cal().of(day(rng));
            V::Date(y, m, d)
        }
        Ty::Time => {
            let (h, mi, s, us) = tod_fields(tod(rng));
            V::Time(h, mi, s, us)
        }
        Ty::Ts => {
            let (y, m, d) = cal().of(day(rng));
            let (h, mi, s, us) = tod_fields(tod(rng));
            V::Ts(y, m, d, h, mi, s, us)
        }
        Ty::Ora => {
            let (y, m, d) = cal().of(day(rng));
            let (h, mi, s, _) = tod_fields(tod(rng));
            V::Ora(y, m, d, h, mi, s)
        }
        Ty::YM => {
            let m = match rng.below(5) {
                0 => *rng.pick(&[0i64, 1, 11, 12, 13, 119, 120, 1199, 1200, 11_999, 12_000, 119_999, 120_000, YM_LIM as i64, YM_LIM as i64 - 1, 12 * 9999 + 11, 12 * 10_000, 12 * 99_999_999 + 11, 12 * 100_000_000]),
                1 => rng.range_i64(0, 12 * 12_000),
                _ => rng.range_i64(0, YM_LIM as i64),
            };
            let neg = rng.chance(1, 2) && m != 0;
            V::YM(neg, (m / 12) as u32, (m % 12) as u32)
        }
        Ty::DT => {
            let u = match rng.below(5) {
                0 => *rng.pick(&[0i64, 1, DAY_US - 1, DAY_US, 9 * DAY_US, 10 * DAY_US, 31 * DAY_US, 32 * DAY_US - 1, 32 * DAY_US, 99 * DAY_US, 100 * DAY_US, 999 * DAY_US + DAY_US - 1, DT_LIM, DT_LIM - 1, 99_999_999 * DAY_US + DAY_US - 1]),
                1 => rng.range_i64(0, 40 * DAY_US),
                2 => rng.range_i64(0, 100_000_000) * DAY_US + tod(rng),
                _ => rng.range_i64(0, DT_LIM),
            };
            let u = u.min(DT_LIM);
            let neg = rng.chance(1, 2) && u != 0;
            let (h, mi, s, us) = tod_fields(u % DAY_US);
            V::DT(neg, (u / DAY_US) as u32, h, mi, s, us)
        }
    }
}

const GEN_TOKENS: &[&str] = &["YYYY", "YYY", "YY", "Y", "MM", "MON", "MONTH", "DD", "DDD", "D", "DAY", "DY", "HH", "HH12", "HH24", "MI", "SS", "FF", "FF1", "FF2", "FF3", "FF4", "FF5", "FF6", "FF7", "FF8",
    "FF9", "AM", "PM", "A.M.", "P.M.", "W", "WW", "T", "-", ":", "/", "\\", ",", ".", ";", " ", "  "];
/// tokens that apply to each type (so that most random composites render instead of erroring)
fn applicable_tokens(ty: Ty) -> Vec<&'static str> {
    GEN_TOKENS.iter().copied().filter(|t| tokenize(t.as_bytes()).map(|k| ty.applies(&k[0])).unwrap_or(false)).collect()
}
fn rand_case(rng: &mut Rng, s: &str) -> String {
    if s == "T" {
        return s.to_string();
    }
    let mode = rng.below(4);
    s.chars()
        .map(|c| match mode {
            0 => c.to_ascii_uppercase(),
            1 => c.to_ascii_lowercase(),
            2 => {
                if rng.chance(1, 2) {
                    c.to_ascii_lowercase()
                } else {
                    c.to_ascii_uppercase()
                }
            }
            _ => c,
        })
        .collect()
}
/// random composite picture of 1..=36 tokens; returns None when the concatenation re-lexes to something
/// longer than 36 tokens (not a picture then)
pub fn rand_picture(st: &mut Stats, rng: &mut Rng, ty: Ty, allow_inapplicable: bool) -> Option<Pic> {
    let pool = if allow_inapplicable && rng.chance(1, 6) { GEN_TOKENS.to_vec() } else { applicable_tokens(ty) };
    let k = match rng.below(8) {
        0 => 30 + rng.below(7) as usize,
        1 => 1,
        _ => 1 + rng.below(10) as usize,
    };
    let mut p = String::new();
    for _ in 0..k {
        let t: &str = pool[rng.below(pool.len() as u64) as usize];
        p.push_str(&rand_case(rng, t));
        if rng.chance(1, 40) {
            p.push_str(&" ".repeat(1 + rng.below(300) as usize));
        }
    }
    pic(st, &p, Some("C04/documented-token-picture-rejected"))
}

pub fn run(ctx: &Ctx, st: &mut Stats) {
    cal();
    let date_pics = pics(st, DATE_PICS);
    let time_pics = pics(st, TIME_PICS);
    let ff_pics = pics(st, FF_PICS);
    // (a) all dates x every date token spelling, on Date
    let stride = ctx.tier.pick(40_009, ctx.q(13, 1), 1);
    let dp = &date_pics;
    ctx.par(st, "(a) Date: all dates x date-token spellings", true, 0, (N_DAYS as i64 + stride - 1) / stride, |st, i, _| {
        let v = v_date(MIN_DAY + (i * stride) as i32);
        for p in dp.iter() {
            st.eval(&F { v, pic: &p.text, toks: &p.toks, f: &p.f, via_display: false, fail_cap: -1 }, check);
        }
    });
    if stride == 1 {
        st.mark_exhaustive("(a) Date: all dates x date-token spellings", &format!("all 3,652,059 dates x {} single-token pictures (every date token in several letter cases)", date_pics.len()));
    }
    // month / year ends when the date enumeration above is strided (otherwise they are already covered)
    ctx.par(st, "(a) Date: month ends and range ends x date-token spellings", true, 1, if stride == 1 { 1 } else { 10_000 }, |st, y, _| {
        if ctx.tier == Tier::San && y % 499 != 1 {
            return;
        }
        for m in 1..=12u32 {
            for d in [1, crate::cal::dim(y, m)] {
                let n = crate::cal::days_from_civil(y, m as i64, d as i64);
                if (n - MIN_DAY as i64) % stride == 0 {
                    continue; // already part of the strided enumeration
                }
                let v = V::Date(y as i32, m, d);
                for p in dp.iter().step_by(if ctx.tier == Tier::San { 7 } else { 1 }) {
                    st.eval(&F { v, pic: &p.text, toks: &p.toks, f: &p.f, via_display: false, fail_cap: -1 }, check);
                }
            }
        }
    });
    // strided on Timestamp / OracleDate
    let s2 = ctx.tier.pick(80_021, ctx.q(97, 29), 11);
    ctx.par(st, "(a) Timestamp,OracleDate: strided dates x date-token spellings", true, 0, N_DAYS as i64 / s2, |st, i, _| {
        let (y, m, d) = cal().of(MIN_DAY + (i * s2) as i32);
        let (h, mi, s) = ((i % 24) as u32, (i % 60) as u32, (i * 7 % 60) as u32);
        for p in dp.iter() {
            st.eval(&F { v: V::Ts(y, m, d, h, mi, s, (i % 1_000_000) as u32), pic: &p.text, toks: &p.toks, f: &p.f, via_display: false, fail_cap: -1 }, check);
            st.eval(&F { v: V::Ora(y, m, d, h, mi, s), pic: &p.text, toks: &p.toks, f: &p.f, via_display: false, fail_cap: -1 }, check);
        }
    });
    // (a') pool dates x bit-structured times of day x date/time tokens on Timestamp (date part and time part are split from one count)
    let bts = crate::pools::bit_times();
    let dpool = crate::pools::date_pool();
    let mixed = pics(st, &["YYYY-MM-DD DY D DDD HH24:MI:SS.FF6", "DAY WW W HH12 AM"]);
    let (bts_ref, dpool_ref, mixed_ref) = (&bts, &dpool, &mixed);
    let bstep = ctx.tier.pick(9973, 7, 1);
    ctx.par(st, "(a') Timestamp: pool dates x bit-structured times x mixed pictures", true, 0, (dpool.len() * bts.len()) as i64 / bstep, |st, i, _| {
        let i = i * bstep;
        let (y, m, d) = cal().of(dpool_ref[(i as usize) / bts_ref.len()]);
        let t = bts_ref[(i as usize) % bts_ref.len()];
        let (h, mi, s, us) = tod_fields(t);
        for p in mixed_ref.iter() {
            st.eval(&F { v: V::Ts(y, m, d, h, mi, s, us), pic: &p.text, toks: &p.toks, f: &p.f, via_display: false, fail_cap: -1 }, check);
        }
    });
    // (b) all seconds x time token spellings on Time; sampled on the other types
    let sstride = ctx.tier.pick(1801, 1, 1);
    let tp = &time_pics;
    ctx.par(st, "(b) Time: all seconds x time-token spellings", true, 0, 86_400 / sstride, |st, i, _| {
        let s = i * sstride;
        let (h, mi, sec) = ((s / 3600) as u32, (s / 60 % 60) as u32, (s % 60) as u32);
        for p in tp.iter() {
            st.eval(&F { v: V::Time(h, mi, sec, 0), pic: &p.text, toks: &p.toks, f: &p.f, via_display: false, fail_cap: -1 }, check);
            if s % 7 == 0 {
                st.eval(&F { v: V::Ts(2021, 3, 11, h, mi, sec, 999_999), pic: &p.text, toks: &p.toks, f: &p.f, via_display: false, fail_cap: -1 }, check);
                st.eval(&F { v: V::Ora(1969, 12, 31, h, mi, sec), pic: &p.text, toks: &p.toks, f: &p.f, via_display: false, fail_cap: -1 }, check);
                st.eval(&F { v: V::DT(s % 2 == 1, 5, h, mi, sec, 1), pic: &p.text, toks: &p.toks, f: &p.f, via_display: false, fail_cap: -1 }, check);
            }
        }
    });
    if sstride == 1 {
        st.mark_exhaustive("(b) Time: all seconds x time-token spellings", &format!("all 86,400 seconds x {} single-token time pictures", time_pics.len()));
    }
    // (c) all microseconds x FF, FF1..FF9 on Time
    let ustride = ctx.tier.pick(9973, ctx.q(7, 1), 1);
    let fp = &ff_pics;
    ctx.par(st, "(c) Time: all microseconds x FF,FF1..FF9", true, 0, 1_000_000 / ustride, |st, i, _| {
        let us = (i * ustride) as u32;
        for p in fp.iter() {
            st.eval(&F { v: V::Time(23, 59, 59, us), pic: &p.text, toks: &p.toks, f: &p.f, via_display: false, fail_cap: -1 }, check);
        }
        if us % 1009 == 0 {
            for p in fp.iter() {
                st.eval(&F { v: V::Ts(1, 1, 1, 0, 0, 0, us), pic: &p.text, toks: &p.toks, f: &p.f, via_display: false, fail_cap: -1 }, check);
                st.eval(&F { v: V::DT(true, 100, 0, 0, 0, us), pic: &p.text, toks: &p.toks, f: &p.f, via_display: false, fail_cap: -1 }, check);
            }
        }
    });
    if ustride == 1 {
        st.mark_exhaustive("(c) Time: all microseconds x FF,FF1..FF9", "all 1,000,000 microsecond values x FF, FF1..FF9 (+ lower-case)");
    }
    // (d) intervals
    st.stratum("(d) intervals: boundary values x applicable tokens", true);
    let ym_pics = pics(st, &["Y", "YY", "YYY", "YYYY", "MM", "YYYY-MM", "MM/YYYY", "yy mm", "Y.MM"]);
    let dt_pics = pics(st, &["DD", "HH24", "MI", "SS", "FF", "FF3", "FF9", "DD HH24:MI:SS.FF6", "HH24:MI:SS DD", "dd\\hh24;mi,ss", "FF1 DD"]);
    st.stratum("(d) intervals: boundary values x applicable tokens", true);
    let mut years: Vec<u32> = (0..=12_000).collect();
    let mut p = 10u32;
    while p <= 100_000_000 {
        years.extend([p - 1, p, p + 1]);
        p *= 10;
    }
    years.extend([177_999_999, 178_000_000, 123_456_789]);
    let years: Vec<u32> = if ctx.tier == Tier::San { years.into_iter().step_by(401).collect() } else { years };
    for &y in &years {
        for m in [0u32, 1, 9, 10, 11] {
            if y == 178_000_000 && m != 0 {
                continue;
            }
            for neg in [false, true] {
                if neg && y == 0 && m == 0 {
                    continue;
                }
                for p in &ym_pics {
                    st.eval(&F { v: V::YM(neg, y, m), pic: &p.text, toks: &p.toks, f: &p.f, via_display: false, fail_cap: -1 }, check);
                }
            }
        }
    }
    let mut dvals: Vec<u32> = (0..=120).collect();
    let mut p = 10u32;
    while p <= 100_000_000 {
        dvals.extend([p - 1, p, p + 1]);
        p *= 10;
    }
    dvals.extend([31, 32, 99_999_999, 100_000_000, 12_345_678]);
    dvals.sort();
    dvals.dedup();
    let dvals: Vec<u32> = if ctx.tier == Tier::San { dvals.into_iter().step_by(5).collect() } else { dvals };
    for &d in &dvals {
        for (h, mi, s, us) in [(0u32, 0u32, 0u32, 0u32), (23, 59, 59, 999_999), (12, 0, 0, 1), (1, 2, 3, 450_000)] {
            if d >= 100_000_000 && (h, mi, s, us) != (0, 0, 0, 0) {
                continue;
            }
            if d > 100_000_000 {
                continue;
            }
            for neg in [false, true] {
                if neg && d == 0 && (h, mi, s, us) == (0, 0, 0, 0) {
                    continue;
                }
                for p in &dt_pics {
                    st.eval(&F { v: V::DT(neg, d, h, mi, s, us), pic: &p.text, toks: &p.toks, f: &p.f, via_display: false, fail_cap: -1 }, check);
                }
            }
        }
    }
    // (f) applicability matrix: each token x each type, through both entry points
    st.stratum("(f) applicability matrix: every token x every type", true);
    let all_pics = pics(st, GEN_TOKENS);
    let probes = [V::Date(2021, 3, 11), V::Time(17, 6, 8, 912_345), V::Ts(2021, 3, 11, 17, 6, 8, 912_345), V::Ora(2021, 3, 11, 17, 6, 8), V::YM(true, 12, 5), V::DT(false, 45, 17, 6, 8, 912_345),
                  V::Date(1, 1, 1), V::Time(0, 0, 0, 0), V::Ts(9999, 12, 31, 23, 59, 59, 999_999), V::Ora(1, 1, 1, 0, 0, 0), V::YM(false, 0, 0), V::DT(true, 100_000_000, 0, 0, 0, 0)];
    for p in &all_pics {
        for v in probes {
            for via_display in [false, true] {
                st.eval(&F { v, pic: &p.text, toks: &p.toks, f: &p.f, via_display, fail_cap: -1 }, check);
            }
        }
    }
    st.mark_exhaustive("(f) applicability matrix: every token x every type", "43 token spellings x 12 probe values (2 per type) x 2 entry points");
    // (g) very long blank runs (a run is copied whatever its length), one value per type, both entry points
    st.stratum("(g) very long blank runs x one value per type", true);
    if ctx.tier != Tier::San {
        let runs: &[usize] = if ctx.tier == Tier::Thorough { &[4_096, 65_535, 65_536, 65_537, 131_071, 131_072, 1_000_003, 1 << 22] } else { &[65_535, 65_536, 65_537, 131_072] };
        let heads = [(Ty::Date, "YYYY", "MM", V::Date(2021, 3, 11)), (Ty::Time, "HH24", "MI", V::Time(17, 6, 8, 912_345)), (Ty::Ts, "DD", "FF3", V::Ts(1969, 12, 31, 23, 59, 59, 999_999)), (Ty::Ora, "MON", "SS", V::Ora(9999, 12, 31, 23, 59, 59)), (Ty::YM, "YYYY", "MM", V::YM(true, 12, 11)), (Ty::DT, "DD", "HH24", V::DT(false, 99, 23, 0, 1, 5))];
        for &n in runs {
            let run = " ".repeat(n);
            for (k, (_ty, a, b, v)) in heads.iter().enumerate() {
                if let Some(p) = pic(st, &format!("{}{}{}", a, run, b), Some("C04/documented-token-picture-rejected")) {
                    st.eval(&F { v: *v, pic: &p.text, toks: &p.toks, f: &p.f, via_display: k % 2 == 0, fail_cap: -1 }, check);
                    st.eval(&F { v: *v, pic: &p.text, toks: &p.toks, f: &p.f, via_display: k % 2 == 1, fail_cap: -1 }, check);
                }
            }
        }
    }
    // (h) runs of punctuation of every length up to the element limit (each character is one element), pure and mixed
    st.stratum("(h) punctuation runs of 1..=34 characters between two fields", true);
    for n in 1..=34usize {
        for (k, filler) in ["-", ":", "/", ".", ",", ";", "\\", "-:/.,;\\"].iter().enumerate() {
            let run: String = filler.chars().cycle().take(n).collect();
            if let Some(p) = pic(st, &format!("YYYY{}DD", run), Some("C04/documented-token-picture-rejected")) {
                st.eval(&F { v: V::Date(2021, 3, 11), pic: &p.text, toks: &p.toks, f: &p.f, via_display: (n + k) % 2 == 0, fail_cap: -1 }, check);
                st.eval(&F { v: V::Ts(1969, 12, 31, 23, 59, 59, 999_999), pic: &p.text, toks: &p.toks, f: &p.f, via_display: (n + k) % 2 == 1, fail_cap: -1 }, check);
            }
        }
    }
    // first renderings of fresh threads: a leading blank run into a re-entrant sink, long runs, dense pictures
    {
        let cold_pics = ["    YYYY/MM", "YYYY            MM", "DD-MON-YYYY", "MONTH Day month DAY MONTH Day month DAY", "FF9FF9FF9FF9FF9FF9FF9FF9", "YYYY-MM-DD HH24:MI:SS.FF6"];
        let mut compiled = vec![];
        for p in cold_pics {
            if let Some(x) = pic(st, p, Some("C04/documented-token-picture-rejected")) {
                compiled.push(std::sync::Arc::new(x));
            }
        }
        struct Owned {
            p: std::sync::Arc<Pic>,
            v: V,
            via_display: bool,
            fail_cap: i32,
        }
        impl Clone for Owned {
            fn clone(&self) -> Self {
                Owned { p: self.p.clone(), v: self.v, via_display: self.via_display, fail_cap: self.fail_cap }
            }
        }
        impl Case for Owned {
            fn to_json(&self) -> Value {
                F { v: self.v, pic: &self.p.text, toks: &self.p.toks, f: &self.p.f, via_display: self.via_display, fail_cap: self.fail_cap }.to_json()
            }
        }
        let mut list = vec![];
        for p in &compiled {
            for fail_cap in [-2, -1, 3, -3] {
                for via_display in [false, true] {
                    list.push(Owned { p: p.clone(), v: V::Ts(2021, 9, 15, 17, 6, 8, 912_345), via_display, fail_cap });
                }
            }
        }
        cold_threads(st, "history: first rendering of a fresh thread (re-entrant / failing / panicking sinks, long runs, dense pictures)", list.clone(), |st, o: &Owned| {
            check(st, &F { v: o.v, pic: &o.p.text, toks: &o.p.toks, f: &o.p.f, via_display: o.via_display, fail_cap: o.fail_cap })
        });
        // compile + render from a thread-exit destructor registered before the thread's first library call
        #[derive(Clone)]
        struct Late(Owned);
        impl Case for Late {
            fn to_json(&self) -> Value {
                let mut j = self.0.to_json();
                j["compiled_and_rendered_in"] = json!("thread-exit destructor");
                j
            }
        }
        let late: Vec<Late> = list.into_iter().filter(|o| o.fail_cap == -1 || o.fail_cap == -2).map(Late).collect();
        teardown_threads(st, "history: picture compiled and value rendered from a thread-exit destructor", late, |st, l: &Late| {
            let o = &l.0;
            // a fresh Formatter inside the destructor: Formatter::try_new must work there as well
            if let Some(p) = pic(st, &o.p.text, Some("C04/documented-token-picture-rejected")) {
                check(st, &F { v: o.v, pic: &p.text, toks: &p.toks, f: &p.f, via_display: o.via_display, fail_cap: o.fail_cap });
            }
        });
    }
    // (i) dense pictures: 30..36 wide tokens without separators (hundreds of bytes of output with no blank run in between),
    //     for values whose names are the longest (a Wednesday in September) and others
    let ndense = ctx.tier.pick(40, 20_000, 400_000);
    ctx.par(st, "(i) dense pictures of 30..36 wide tokens without separators", false, 0, ndense, |st, i, rng| {
        let wide = ["MONTH", "Month", "month", "DAY", "Day", "day", "FF9", "FF8", "FF7", "YYYY", "DDD", "HH24", "MON", "Dy", "FF"];
        let k = 30 + rng.below(7) as usize;
        let mut p = String::new();
        for _ in 0..k {
            p.push_str(*rng.pick(&wide));
            if rng.chance(1, 12) {
                p.push_str(*rng.pick(&["-", " ", ":", "  "]));
            }
        }
        if let Some(pc) = pic(st, &p, None) {
            let v = if i % 2 == 0 { V::Ts(2021, 9, 15, 17, 6, 8, 912_345) } else { rand_value(rng, Ty::Ts) };
            let h = mix(hash64(p.as_bytes()), hash64(v.show().as_bytes()));
            st.eval_h(h, &F { v, pic: &pc.text, toks: &pc.toks, f: &pc.f, via_display: i % 4 < 2, fail_cap: -1 }, check);
        }
    });
    // (e) random composite pictures x random values of all types
    let n = ctx.tier.pick(400, 600_000, ctx.big(12_000_000, 80_000_000));
    ctx.par(st, "(e) random composite pictures x random values, all six types", false, 0, n, |st, _, rng| {
        let ty = *rng.pick(&ALL_TY);
        let wk = if rng.chance(1, 6) {
            // a well-known whole picture, re-spelled (letter case per token, blank runs lengthened)
            let base = *rng.pick(crate::spell::WELL_KNOWN);
            let v = crate::spell::vary_picture(rng, base);
            pic(st, &v, Some("C04/documented-token-picture-rejected"))
        } else {
            None
        };
        let p = match wk.or_else(|| rand_picture(st, rng, ty, true)) {
            Some(p) => p,
            None => {
                st.skipped += 1;
                return;
            }
        };
        let v = rand_value(rng, ty);
        let via_display = rng.chance(1, 4);
        let h = mix(hash64(p.text.as_bytes()), hash64(v.show().as_bytes()));
        let fail_cap = match h >> 20 & 15 {
            0 | 1 => (h >> 24 & 31) as i32,
            2 => -2,
            3 => -3,
            _ => -1,
        };
        let c = F { v, pic: &p.text, toks: &p.toks, f: &p.f, via_display: via_display || fail_cap >= 0, fail_cap };
        let anchors: Vec<i64> = v.to_lib().and_then(|x| x.day_number()).into_iter().collect();
        crate::primers::eval_sched(st, rng, h, &c, &anchors, 0, &[], check);
    });
    let _ = civil_from_days;
}

pub fn replay(v: &Value, st: &mut Stats) -> bool {
    if jstr(v, "kind") == "picture" {
        let p = jstr(v, "picture");
        let _ = pic(st, &p, Some("C04/documented-token-picture-rejected"));
        return true;
    }
    let val = match v.get("value").and_then(V::from_json) {
        Some(x) => x,
        None => return false,
    };
    let p = jstr(v, "picture");
    match pic(st, &p, Some("C04/documented-token-picture-rejected")) {
        Some(pc) => st.eval(&F { v: val, pic: &pc.text, toks: &pc.toks, f: &pc.f, via_display: v.get("via_display").and_then(|x| x.as_bool()).unwrap_or(false), fail_cap: v.get("fail_cap").and_then(|x| x.as_i64()).unwrap_or(-1) as i32 }, check),
        None => {}
    }
    true
}
