//! C10 (truncation) and C11 (rounding): shared enumeration, separate oracles.
use crate::cal::cal;
use crate::core::*;
use crate::pools::*;
use crate::trmodel::*;
use serde_json::{json, Value};

#[derive(Clone, Copy, Debug)]
pub struct T {
    pub round: bool,
    pub u: U,
    pub ty: TyK,
    pub n: i64,
    pub tod: i64,
    /// 0 = single input; otherwise a second input (n2*DAY+tod2 > first) for the monotonicity clause
    pub n2: i64,
    pub tod2: i64,
    pub mono: bool,
}
impl Case for T {
    fn to_json(&self) -> Value {
        json!({"kind": if self.mono { "monotone-pair" } else { "single" }, "op": if self.round { "round" } else { "trunc" }, "unit": self.u.name(),
               "type": match self.ty { TyK::Date => "Date", TyK::Ts => "Timestamp", TyK::Ora => "OracleDate" },
               "day": self.n, "tod_us": self.tod, "day2": self.n2, "tod2_us": self.tod2, "date": format!("{:?}", cal().of(self.n as i32))})
    }
}
fn tyname(t: TyK) -> &'static str {
    match t {
        TyK::Date => "Date",
        TyK::Ts => "Timestamp",
        TyK::Ora => "OracleDate",
    }
}
fn count_op(st: &mut Stats, round: bool, ty: TyK) {
    st.op(match (round, ty) {
        (false, TyK::Date) => Op::D_trunc,
        (true, TyK::Date) => Op::D_round,
        (false, TyK::Ts) => Op::TS_trunc,
        (true, TyK::Ts) => Op::TS_round,
        (false, TyK::Ora) => Op::O_trunc,
        (true, TyK::Ora) => Op::O_round,
    })
}
fn range_obs(st: &mut Stats, c: &T, v: i64) {
    let i = match c.ty {
        TyK::Date => 0,
        TyK::Ts => 2,
        TyK::Ora => 5,
    };
    st.range_obs[i] += 1;
    if !in_type_range(c.ty, v as i128) || (c.ty == TyK::Ora && v.rem_euclid(1_000_000) != 0) || (c.ty == TyK::Date && v.rem_euclid(DAY_US) != 0) {
        st.fail(format!("range/{}/{}_{}", tyname(c.ty), if c.round { "round" } else { "trunc" }, c.u.name()), format!("returned {} us", v));
    }
}

pub fn check_trunc(st: &mut Stats, c: &T) {
    let prefix = format!("C10/{}/trunc_{}", tyname(c.ty), c.u.name());
    if c.mono {
        let a = lib_apply(false, c.u, c.ty, c.n, c.tod);
        let b = lib_apply(false, c.u, c.ty, c.n2, c.tod2);
        count_op(st, false, c.ty);
        count_op(st, false, c.ty);
        if let (Ok(a), Ok(b)) = (a, b) {
            if a > b {
                st.fail(format!("{}/not-monotone", prefix), format!("trunc({},{}) = {} > trunc({},{}) = {}", c.n, c.tod, a, c.n2, c.tod2, b));
            }
        }
        return;
    }
    count_op(st, false, c.ty);
    let x = c.n * DAY_US + c.tod;
    let exp = trunc_model(c.u, c.n, c.tod);
    let got = lib_apply(false, c.u, c.ty, c.n, c.tod);
    let before = if x < 0 { "/before-epoch" } else { "" };
    match got {
        Ok(v) => {
            range_obs(st, c, v);
            if !in_type_range(c.ty, exp) {
                st.fail(format!("{}/ok-although-boundary-before-minimum", prefix), format!("input ({}, {}) -> {} ; boundary {} is before 0001-01-01", c.n, c.tod, v, exp));
                return;
            }
            if v as i128 != exp {
                st.fail(format!("{}/wrong-boundary{}", prefix, before), format!("input day {} {:?} tod {}: got {} ({:?}) expected {} ({:?})", c.n, cal().of(c.n as i32), c.tod, v, show(v), exp, show(exp as i64)));
            }
            // direct clauses, evaluated on the library's own output
            if v > x {
                st.fail(format!("{}/moves-forward{}", prefix, before), format!("input {} -> {}", x, v));
            }
            if !c.u.sub_day() && v.rem_euclid(DAY_US) != 0 {
                st.fail(format!("{}/time-of-day-not-cleared", prefix), format!("input {} -> {}", x, v));
            }
            count_op(st, false, c.ty);
            match lib_apply(false, c.u, c.ty, v.div_euclid(DAY_US), v.rem_euclid(DAY_US)) {
                Ok(w) if w == v => {}
                other => st.fail(format!("{}/not-idempotent", prefix), format!("input {} -> {} -> {:?}", x, v, other)),
            }
        }
        Err(e) => {
            if in_type_range(c.ty, exp) {
                st.fail(format!("{}/err-although-boundary-in-range", prefix), format!("input ({}, {}): {:?}, boundary {}", c.n, c.tod, e, exp));
            }
        }
    }
}

fn show(us: i64) -> (i64, u32, u32, i64) {
    let (y, m, d) = crate::cal::civil_from_days(us.div_euclid(DAY_US));
    (y, m, d, us.rem_euclid(DAY_US))
}

pub fn check_round(st: &mut Stats, c: &T) {
    let prefix = format!("C11/{}/round_{}", tyname(c.ty), c.u.name());
    let (y, _, _) = cal().of(c.n as i32);
    if c.mono {
        let a = lib_apply(true, c.u, c.ty, c.n, c.tod);
        let b = lib_apply(true, c.u, c.ty, c.n2, c.tod2);
        count_op(st, true, c.ty);
        count_op(st, true, c.ty);
        if let (Ok(a), Ok(b)) = (a, b) {
            if a > b {
                st.fail(format!("{}/not-monotone", prefix), format!("round({},{}) = {} > round({},{}) = {}", c.n, c.tod, a, c.n2, c.tod2, b));
            }
        }
        return;
    }
    count_op(st, true, c.ty);
    let x = c.n * DAY_US + c.tod;
    let want = round_model(c.u, c.ty, c.n, c.tod);
    let got = lib_apply(true, c.u, c.ty, c.n, c.tod);
    if let Ok(v) = got {
        range_obs(st, c, v);
    }
    let before = if x < 0 { "/before-epoch" } else { "" };
    match want {
        Want::Exactly(b) => {
            let lo = trunc_model(c.u, c.n, c.tod);
            match got {
                Ok(v) => {
                    if v as i128 == b {
                        // ok; direct clause: the result is itself a unit boundary
                        count_op(st, false, c.ty);
                        match lib_apply(false, c.u, c.ty, v.div_euclid(DAY_US), v.rem_euclid(DAY_US)) {
                            Ok(w) if w == v => {}
                            other => st.fail(format!("{}/result-is-not-a-boundary", prefix), format!("input {} -> {} ; trunc of that -> {:?}", x, v, other)),
                        }
                    } else if !in_type_range(c.ty, b) {
                        st.fail(
                            if b < 0 && !in_type_range(c.ty, b) && b < (MIN_DAY as i128) * DAY_US as i128 { format!("{}/ok-although-chosen-boundary-before-minimum", prefix) } else { format!("{}/ok-although-chosen-boundary-after-maximum", prefix) },
                            format!("input ({}, {}) -> {} ({:?}); the documented rule picks {} which is out of range", c.n, c.tod, v, show(v), b),
                        );
                    } else if c.u == U::Century && y % 100 == 0 && v as i128 == lo && b != lo {
                        st.fail("C11/round_century/year%100==0/returns-truncation", format!("{} {:?}: got {:?}, expected {:?}", tyname(c.ty), cal().of(c.n as i32), show(v), show(b as i64)));
                    } else if x as i128 == lo {
                        st.fail(format!("{}/boundary-input-changed", prefix), format!("input {} ({:?}) is a boundary but became {} ({:?})", x, show(x), v, show(v)));
                    } else {
                        let which = if b == lo { "rounds-up-before-the-midpoint" } else { "stays-down-from-the-midpoint-on" };
                        let adj = if v as i128 != lo && b != lo && (v as i128) < b || (v as i128) > b && b == lo && v as i128 != next_of(c) { "not-adjacent" } else { which };
                        st.fail(format!("{}/{}{}", prefix, adj, before), format!("input day {} {:?} tod {}: got {} {:?}, expected {} {:?}", c.n, cal().of(c.n as i32), c.tod, v, show(v), b, show(b as i64)));
                    }
                }
                Err(e) => {
                    if in_type_range(c.ty, b) {
                        st.fail(format!("{}/err-although-boundary-in-range", prefix), format!("input ({}, {}) {:?}: {:?}, chosen boundary {} {:?}", c.n, c.tod, cal().of(c.n as i32), e, b, show(b as i64)));
                    }
                }
            }
        }
        Want::Either(a, b) => {
            st.unspecified += 1;
            match got {
                Ok(v) => {
                    if !((v as i128 == a && in_type_range(c.ty, a)) || (v as i128 == b && in_type_range(c.ty, b))) {
                        st.fail(format!("{}/not-adjacent/short-week", prefix), format!("input ({}, {}): got {} {:?}, neighbours {} and {}", c.n, c.tod, v, show(v), a, b));
                    }
                }
                Err(e) => {
                    if in_type_range(c.ty, a) && in_type_range(c.ty, b) {
                        st.fail(format!("{}/err-although-both-neighbours-in-range", prefix), format!("input ({}, {}): {:?}", c.n, c.tod, e));
                    }
                }
            }
        }
    }
}
fn next_of(c: &T) -> i128 {
    match c.u {
        U::Hour => trunc_model(c.u, c.n, c.tod) + 3_600_000_000,
        U::Minute => trunc_model(c.u, c.n, c.tod) + 60_000_000,
        _ => next_day_boundary(c.u, trunc_day_model(c.u, c.n)) as i128 * DAY_US as i128,
    }
}

fn one(round: bool, u: U, ty: TyK, n: i64, tod: i64) -> T {
    T { round, u, ty, n, tod, n2: 0, tod2: 0, mono: false }
}

/// cases evaluated as the first library call of a fresh thread and (leg `cold`) of a fresh process
pub fn cold_list(round: bool) -> Vec<T> {
    let mut v = vec![];
    for u in UNITS {
        for n in [0i64, 3, -1, 1, MIN_DAY as i64 + 10, MAX_DAY as i64 - 400, 11_016, 10_957, 10_958, 11_322, 11_323, -25_567] {
            v.push(one(round, u, TyK::Date, n, 0));
            v.push(one(round, u, TyK::Ts, n, 43_200_000_000));
            v.push(one(round, u, TyK::Ts, n, 0));
            v.push(one(round, u, TyK::Ora, n, 41_000_000));
        }
    }
    v
}

pub fn run(ctx: &Ctx, st: &mut Stats, round: bool) {
    cal();
    let check: fn(&mut Stats, &T) = if round { check_round } else { check_trunc };
    let times = time_pool();
    let stride = ctx.tier.pick(20_011, ctx.q(5, 1), 1);
    // ---- Date: all dates x 12 units (+ monotonicity on consecutive days)
    ctx.par(st, "Date: all dates x 12 units", true, 0, (N_DAYS as i64 + stride - 1) / stride, |st, i, _| {
        let n = MIN_DAY as i64 + i * stride;
        for u in UNITS {
            st.eval(&one(round, u, TyK::Date, n, 0), check);
            if n < MAX_DAY as i64 && !(round && u == U::IsoYear) {
                let (y, _, _) = cal().of(n as i32);
                let (y2, _, _) = cal().of(n as i32 + 1);
                // century-end years are excluded from the monotonicity chain (open known finding on them)
                if !(round && u == U::Century && (y % 100 == 0 || y2 % 100 == 0)) {
                    st.eval(&T { round, u, ty: TyK::Date, n, tod: 0, n2: n + 1, tod2: 0, mono: true }, check);
                }
            }
        }
    });
    if stride == 1 {
        st.mark_exhaustive("Date: all dates x 12 units", "all 3,652,059 dates x 12 units, plus the monotonicity clause on every pair of consecutive days");
    }
    // ---- history monitors: descending sweep, A,B,A, cold start (pure functions must not depend on call history)
    ctx.par(st, "history: all dates descending x 12 units (Date)", true, 0, (N_DAYS as i64 + stride - 1) / stride, |st, i, _| {
        let n = MAX_DAY as i64 - i * stride;
        for u in UNITS {
            st.eval(&one(round, u, TyK::Date, n, 0), check);
        }
    });
    let na = ctx.tier.pick(200, 300_000, 3_000_000);
    ctx.par(st, "history: A,B,A (all types, one unit)", false, 0, na, |st, i, rng| {
        let u = *rng.pick(&UNITS);
        let ty = *rng.pick(&[TyK::Date, TyK::Ts, TyK::Ora]);
        let mk = |rng: &mut Rng| {
            let x = rng.range_i64(TS_MIN, TS_MAX);
            let (n, tod) = (x.div_euclid(DAY_US), x.rem_euclid(DAY_US));
            match ty {
                TyK::Date => one(round, u, ty, n, 0),
                TyK::Ts => one(round, u, ty, n, tod),
                TyK::Ora => one(round, u, ty, n, tod - tod % 1_000_000),
            }
        };
        let a = mk(rng);
        let b = if rng.chance(1, 2) { mk(rng) } else { one(round, u, ty, (a.n + rng.range_i64(-40, 40)).clamp(MIN_DAY as i64, MAX_DAY as i64), a.tod) };
        let h = mix(mix(mix(a.n as u64, a.tod as u64), mix(b.n as u64, b.tod as u64)), mix(ty as u64, u as u64));
        st.eval_hist(h, vec![a, b, a], check);
        let _ = i;
    });
    // a date next to a period boundary, then one nearby (other side of the boundary, inside the period, next period), alternating
    let ystep = ctx.tier.pick(997, ctx.q(7, 1), 1);
    ctx.par(st, "history: boundary-region date, nearby date, alternating (every year x all units)", false, 0, (9999 + ystep - 1) / ystep, |st, i, rng| {
        let y = 1 + i * ystep;
        for u in UNITS {
            for v in 0..6 {
                let a = match v {
                    0 => crate::cal::days_from_civil(y, 12, 28) + rng.range_i64(0, 3),
                    1 => crate::cal::days_from_civil(y, 1, 1) + rng.range_i64(0, 4),
                    2 | 3 => crate::cal::days_from_civil(y, 1 + rng.below(12) as i64, 1) + rng.range_i64(-3, 3),
                    4 => crate::cal::days_from_civil(y, 1 + rng.below(12) as i64, 14) + rng.range_i64(0, 3),
                    _ => crate::cal::days_from_civil(y, 1, 1) + rng.range_i64(0, 364),
                };
                let b = a + if rng.chance(1, 2) { rng.range_i64(-45, 45) } else { rng.range_i64(-400, 400) };
                if !(MIN_DAY as i64..=MAX_DAY as i64).contains(&a) || !(MIN_DAY as i64..=MAX_DAY as i64).contains(&b) {
                    continue;
                }
                let ty = [TyK::Date, TyK::Ts, TyK::Ora][((i + v) % 3) as usize];
                let (ta, tb) = match ty {
                    TyK::Date => (0, 0),
                    TyK::Ts => (rng.range_i64(0, DAY_US - 1), rng.range_i64(0, DAY_US - 1)),
                    TyK::Ora => (rng.range_i64(0, 86_399) * 1_000_000, rng.range_i64(0, 86_399) * 1_000_000),
                };
                let (ca, cb) = (one(round, u, ty, a, ta), one(round, u, ty, b, tb));
                let h = mix(mix(a as u64, b as u64), mix(mix(ta as u64, tb as u64), u as u64 * 4 + ty as u64));
                st.eval_hist(h, vec![ca, cb, ca, cb], check);
            }
        }
    });
    let np = ctx.tier.pick(300, 1_000_000, 10_000_000);
    ctx.par(st, "history: other operations on related dates (primers), then the judged case; also A,A", false, 0, np, |st, i, rng| {
        let u = *rng.pick(&UNITS);
        let ty = *rng.pick(&[TyK::Date, TyK::Ts, TyK::Ora]);
        // the judged date: anywhere, or in a boundary region (turn of the year, turn of a month, mid-month)
        let y = rng.range_i64(1, 9999);
        let n = match rng.below(5) {
            0 => rng.range_i64(MIN_DAY as i64, MAX_DAY as i64),
            1 => crate::cal::days_from_civil(y, 1, 1) + rng.range_i64(-3, 20),
            2 => crate::cal::days_from_civil(y, 1 + rng.below(12) as i64, 1) + rng.range_i64(-3, 10),
            3 => crate::cal::days_from_civil(y, 1 + rng.below(12) as i64, 15) + rng.range_i64(-2, 3),
            _ => crate::cal::days_from_civil(y, 12, 14) + rng.range_i64(0, 17),
        }
        .clamp(MIN_DAY as i64, MAX_DAY as i64);
        let tod = match ty {
            TyK::Date => 0,
            TyK::Ts => if rng.chance(1, 2) { rng.range_i64(0, DAY_US - 1) } else { *rng.pick(&[0i64, 43_200_000_000, 43_199_999_999, DAY_US - 1]) },
            TyK::Ora => rng.range_i64(0, 86_399) * 1_000_000,
        };
        let c = one(round, u, ty, n, tod);
        let h = mix(mix(n as u64, tod as u64), mix(u as u64 * 4 + ty as u64, i as u64));
        if i % 8 == 0 {
            st.eval_hist(mix(h, 0xAA), vec![c, c], check);
        } else {
            let pr = crate::primers::gen_some(rng, &[n], tod, &[u as i64 * 2, u as i64 * 2 + 1]);
            st.eval_primed(h, pr, c, check);
        }
    });
    cold_threads(st, "history: first call on a fresh thread", cold_list(round), check);
    {
        // first calls on fresh threads for dates people start from: other epochs (J2000, 1900, 1601, 1980, 2001 ...),
        // turns of years and months around them, and a sample over the whole range
        let mut v = vec![];
        let mut rng = Rng::new(mix(ctx.seed, 0xC01D));
        let mut days: Vec<i64> = vec![];
        for (y, m, d) in [(2000, 1, 1), (2000, 1, 2), (2000, 12, 31), (2001, 1, 1), (1999, 12, 31), (1900, 1, 1), (1899, 12, 30), (1601, 1, 1), (1980, 1, 6), (1582, 10, 15), (1, 1, 1), (2038, 1, 19), (2026, 10, 3), (1858, 11, 17), (1904, 1, 1), (1968, 5, 24), (9999, 12, 31)] {
            days.push(crate::cal::days_from_civil(y, m, d));
        }
        for _ in 0..ctx.tier.pick(4, 60, 600) {
            days.push(rng.range_i64(MIN_DAY as i64, MAX_DAY as i64));
        }
        for &n in &days {
            for u in UNITS {
                let ty = *rng.pick(&[TyK::Date, TyK::Ts, TyK::Ora]);
                let tod = match ty {
                    TyK::Date => 0,
                    TyK::Ts => *rng.pick(&[0i64, 1, 43_200_000_000, DAY_US - 1]),
                    TyK::Ora => *rng.pick(&[0i64, 43_200_000_000, 86_399_000_000]),
                };
                v.push(one(round, u, ty, n, tod));
            }
        }
        cold_threads(st, "history: first call on a fresh thread (other epochs, sampled dates)", v.clone(), check);
        v.truncate(ctx.tier.pick(24, 600, 6000));
        teardown_threads(st, "history: call from a thread-exit destructor registered before the first library call", v, check);
    }
    if round {
        // bridge the excluded century-end years: last day of year ..99 against first day of year ..01
        st.stratum("Date: century monotonicity across excluded years", true);
        for c in 1..=98i64 {
            let a = crate::cal::days_from_civil(c * 100 - 1, 12, 31);
            let b = crate::cal::days_from_civil(c * 100 + 1, 1, 1);
            for ty in [TyK::Date, TyK::Ts, TyK::Ora] {
                st.eval(&T { round, u: U::Century, ty, n: a, tod: 0, n2: b, tod2: 0, mono: true }, check);
            }
        }
    }
    // ---- Timestamp / OracleDate: all dates x critical times x 12 units
    let tstride = ctx.tier.pick(40_009, ctx.q(11, 5), 1);
    let times_ref = &times;
    ctx.par(st, "Timestamp,OracleDate: dates x critical-times x 12 units", true, 0, (N_DAYS as i64 + tstride - 1) / tstride, |st, i, _| {
        let n = MIN_DAY as i64 + i * tstride;
        let (y, _, _) = cal().of(n as i32);
        for u in UNITS {
            let mut prev: Option<i64> = None;
            for &t in times_ref.iter() {
                st.eval(&one(round, u, TyK::Ts, n, t), check);
                if t % 1_000_000 == 0 {
                    st.eval(&one(round, u, TyK::Ora, n, t), check);
                }
                if let Some(p) = prev {
                    if !(round && u == U::IsoYear) && !(round && u == U::Century && y % 100 == 0) {
                        st.eval(&T { round, u, ty: TyK::Ts, n, tod: p, n2: n, tod2: t, mono: true }, check);
                    }
                }
                prev = Some(t);
            }
            // last instant of the day against midnight of the next day
            if n < MAX_DAY as i64 && !(round && u == U::IsoYear) {
                let (y2, _, _) = cal().of(n as i32 + 1);
                if !(round && u == U::Century && (y % 100 == 0 || y2 % 100 == 0)) {
                    st.eval(&T { round, u, ty: TyK::Ts, n, tod: DAY_US - 1, n2: n + 1, tod2: 0, mono: true }, check);
                    st.eval(&T { round, u, ty: TyK::Ora, n, tod: DAY_US - 1_000_000, n2: n + 1, tod2: 0, mono: true }, check);
                }
            }
        }
    });
    if tstride == 1 {
        st.mark_exhaustive("Timestamp,OracleDate: dates x critical-times x 12 units", &format!("all dates x {} critical times x 12 units (OracleDate at the whole-second ones)", times.len()));
    }
    // ---- every second of sampled days
    let mut days: Vec<i64> = vec![MIN_DAY as i64, MIN_DAY as i64 + 1, MIN_DAY as i64 + 2, MIN_DAY as i64 + 6, MAX_DAY as i64, MAX_DAY as i64 - 1, MAX_DAY as i64 - 6, -1, 0, 1];
    for (y, m, d) in [(1969, 12, 31), (1970, 1, 1), (2000, 2, 29), (2000, 12, 31), (2001, 1, 1), (1999, 12, 31), (2021, 3, 11), (2024, 2, 29), (2024, 3, 3), (2024, 6, 30), (2024, 7, 1), (1582, 10, 15),
                      (1900, 2, 28), (100, 12, 31), (101, 1, 1), (9950, 12, 31), (9951, 1, 1), (4, 2, 29), (2015, 1, 1), (2014, 12, 29), (2026, 1, 1), (2020, 12, 31), (2021, 1, 3), (2021, 1, 4),
                      (1950, 6, 15), (2050, 12, 31), (2051, 1, 1), (2022, 5, 15), (2022, 5, 16), (2022, 8, 15), (2022, 8, 16)] {
        days.push(crate::cal::days_from_civil(y, m, d));
    }
    let days = if ctx.tier == Tier::San { days[..4].to_vec() } else { days };
    let sstep = ctx.tier.pick(3607, 7, 1);
    let days_ref = &days;
    ctx.par(st, "every second of sampled days x 12 units", true, 0, days.len() as i64 * (86_400 / sstep), |st, i, _| {
        let n = days_ref[(i / (86_400 / sstep)) as usize];
        let s = (i % (86_400 / sstep)) * sstep;
        for u in UNITS {
            st.eval(&one(round, u, TyK::Ts, n, s * 1_000_000), check);
            st.eval(&one(round, u, TyK::Ora, n, s * 1_000_000), check);
            st.eval(&one(round, u, TyK::Ts, n, s * 1_000_000 + 999_999), check);
            if s + 1 < 86_400 && u.sub_day() {
                st.eval(&T { round, u, ty: TyK::Ts, n, tod: s * 1_000_000 + 999_999, n2: n, tod2: (s + 1) * 1_000_000, mono: true }, check);
            }
        }
    });
    // ---- pool dates x bit-structured times of day
    let bts = bit_times();
    let dpool = date_pool();
    let (bts_ref, dpool_ref) = (&bts, &dpool);
    let bstep = ctx.tier.pick(997, 3, 1);
    ctx.par(st, "pool dates x bit-structured times x 12 units", true, 0, (dpool.len() * bts.len()) as i64 / bstep, |st, i, _| {
        let i = i * bstep;
        let n = dpool_ref[(i as usize) / bts_ref.len()] as i64;
        let t = bts_ref[(i as usize) % bts_ref.len()];
        for u in UNITS {
            st.eval(&one(round, u, TyK::Ts, n, t), check);
            if t % 1_000_000 == 0 {
                st.eval(&one(round, u, TyK::Ora, n, t), check);
            }
        }
    });
    // ---- seeded random timestamps
    let nr = ctx.tier.pick(500, 1_000_000, ctx.big(20_000_000, 300_000_000));
    ctx.par(st, "random/timestamps x 12 units", false, 0, nr, |st, _, rng| {
        let x = rng.range_i64(TS_MIN, TS_MAX);
        let (n, tod) = (x.div_euclid(DAY_US), x.rem_euclid(DAY_US));
        let u = *rng.pick(&UNITS);
        let c = if rng.chance(1, 3) { one(round, u, TyK::Ora, n, tod - tod % 1_000_000) } else { one(round, u, TyK::Ts, n, tod) };
        st.eval_h(mix(mix(x as u64, u as u64), c.ty as u64), &c, check);
    });
}

pub fn replay(v: &Value, st: &mut Stats, round: bool) -> bool {
    let u = match U::from_name(&jstr(v, "unit")) {
        Some(u) => u,
        None => return false,
    };
    let ty = match jstr(v, "type").as_str() {
        "Date" => TyK::Date,
        "Timestamp" => TyK::Ts,
        "OracleDate" => TyK::Ora,
        _ => return false,
    };
    let c = T { round, u, ty, n: ji64(v, "day"), tod: ji64(v, "tod_us"), n2: ji64(v, "day2"), tod2: ji64(v, "tod2_us"), mono: jstr(v, "kind") == "monotone-pair" };
    st.eval(&c, if round { check_round } else { check_trunc });
    true
}
