//! C01 - day number <-> (year, month, day) is the proleptic Gregorian bijection.
use crate::cal::{cal, dim, weekday_sun0, Cal};
use crate::core::*;
use serde_json::{json, Value};
use sqldatetime::{Date, Error};
use std::collections::hash_map::DefaultHasher;
use std::hash::{Hash, Hasher};

#[derive(Clone, Copy, Debug)]
pub enum C {
    Day(i32),
    OutDay(i32),
    Triple(i32, u32, u32),
    Pair(i32, i32),
    /// a (year 0..=9999, month, day) triple written as text "YYYY-MM-DD": through Date::parse and through serde (JSON string)
    Text(i32, u32, u32),
    /// a raw day number handed to the type's serde visitors as an integer of the given wire width (0 = i64, 1 = u64, 2 = i32, 3 = u32)
    Wire(i64, u8),
}
impl Case for C {
    fn to_json(&self) -> Value {
        match *self {
            C::Day(n) => json!({"kind":"day","n":n}),
            C::OutDay(n) => json!({"kind":"outday","n":n}),
            C::Triple(y, m, d) => json!({"kind":"triple","y":y,"m":m,"d":d}),
            C::Pair(a, b) => json!({"kind":"pair","a":a,"b":b}),
            C::Wire(v, w) => json!({"kind":"wire-integer","v":v,"width":w}),
            C::Text(y, m, d) => json!({"kind":"text-triple","y":y,"m":m,"d":d}),
        }
    }
}

fn h<T: Hash>(t: &T) -> u64 {
    let mut s = DefaultHasher::new();
    t.hash(&mut s);
    s.finish()
}

pub fn check(st: &mut Stats, c: &C) {
    match *c {
        C::Day(n) => {
            let exp = cal().of(n);
            st.op(Op::D_try_from_days);
            let d = match Date::try_from_days(n) {
                Ok(d) => d,
                Err(e) => return st.fail("C01/try_from_days/rejects-in-range", format!("day {} -> {:?}", n, e)),
            };
            st.obs(Op::D_try_from_days, &d);
            st.op(Op::D_days);
            if d.days() != n {
                st.fail("C01/days/not-identity", format!("try_from_days({}).days() = {}", n, d.days()));
            }
            st.op(Op::D_extract);
            let got = d.extract();
            if got != exp {
                st.fail("C01/extract/wrong-triple", format!("day {} extract {:?} expected {:?}", n, got, exp));
            }
            {
                // the same triple through the field accessors of the DateTime trait
                use sqldatetime::DateTime;
                st.op(Op::D_accessors);
                let acc = (d.year(), d.month(), d.day());
                if acc != (Some(exp.0), Some(exp.1 as i32), Some(exp.2 as i32)) {
                    st.fail("C01/accessors/wrong-triple", format!("day {} year()/month()/day() = {:?} expected {:?}", n, acc, exp));
                }
            }
            st.op(Op::D_try_from_ymd);
            match Date::try_from_ymd(exp.0, exp.1, exp.2) {
                Ok(d2) => {
                    st.obs(Op::D_try_from_ymd, &d2);
                    if d2.days() != n {
                        st.fail("C01/try_from_ymd/wrong-day-number", format!("{:?} -> {} expected {}", exp, d2.days(), n));
                    }
                    if d2 != d || h(&d2) != h(&d) {
                        st.fail("C01/eq-hash/same-date-differs", format!("{:?}", exp));
                    }
                }
                Err(e) => st.fail("C01/try_from_ymd/rejects-real-date", format!("{:?} -> {:?}", exp, e)),
            }
            st.op(Op::D_is_valid);
            if !Date::is_valid(exp.0, exp.1, exp.2) {
                st.fail("C01/is_valid/rejects-real-date", format!("{:?}", exp));
            }
            st.op(Op::D_day_of_week);
            let wd = d.day_of_week() as u32;
            if wd != weekday_sun0(n as i64) + 1 {
                st.fail("C01/day_of_week/wrong", format!("day {} ({:?}) weekday {} expected {}", n, exp, wd, weekday_sun0(n as i64) + 1));
            }
            if n < MAX_DAY {
                // consecutive numbers are consecutive calendar dates, and order follows triples
                let nx = cal().of(n + 1);
                if let Ok(d1) = Date::try_from_days(n + 1) {
                    st.op(Op::D_cmp);
                    if !(d < d1) || d >= d1 || d == d1 || d.cmp(&d1) != std::cmp::Ordering::Less {
                        st.fail("C01/order/consecutive", format!("day {} vs {}", n, n + 1));
                    }
                    let e1 = d1.extract();
                    let succ = if exp.2 < dim(exp.0 as i64, exp.1) {
                        (exp.0, exp.1, exp.2 + 1)
                    } else if exp.1 < 12 {
                        (exp.0, exp.1 + 1, 1)
                    } else {
                        (exp.0 + 1, 1, 1)
                    };
                    if e1 != succ || nx != succ {
                        st.fail("C01/extract/not-consecutive", format!("day {} = {:?}, day {} = {:?}, calendar successor {:?}", n, got, n + 1, e1, succ));
                    }
                }
            }
        }
        C::OutDay(n) => {
            st.op(Op::D_try_from_days);
            match Date::try_from_days(n) {
                Ok(d) => {
                    st.obs(Op::D_try_from_days, &d);
                    st.fail("C01/try_from_days/accepts-out-of-range", format!("day {} accepted", n))
                }
                Err(Error::DateOutOfRange) => {}
                Err(e) => st.fail("C01/try_from_days/wrong-error-kind", format!("day {} -> {:?}", n, e)),
            }
        }
        C::Triple(y, m, d) => {
            let valid = Cal::valid_ymd(y as i64, m, d);
            st.op(Op::D_try_from_ymd);
            st.op(Op::D_is_valid);
            let r = Date::try_from_ymd(y, m, d);
            let iv = Date::is_valid(y, m, d);
            if iv != valid {
                st.fail("C01/is_valid/disagrees-with-calendar", format!("({},{},{}) is_valid={} calendar={}", y, m, d, iv, valid));
            }
            match r {
                Ok(date) => {
                    st.obs(Op::D_try_from_ymd, &date);
                    if !valid {
                        st.fail("C01/try_from_ymd/accepts-non-date", format!("({},{},{}) accepted as day {}", y, m, d, date.days()));
                    } else {
                        let n = crate::cal::days_from_civil(y as i64, m as i64, d as i64);
                        if date.days() as i64 != n {
                            st.fail("C01/try_from_ymd/wrong-day-number", format!("({},{},{}) -> {} expected {}", y, m, d, date.days(), n));
                        }
                        st.op(Op::D_extract);
                        if date.extract() != (y, m, d) {
                            st.fail("C01/extract/wrong-triple", format!("({},{},{}) -> {:?}", y, m, d, date.extract()));
                        }
                    }
                }
                Err(e) => {
                    if valid {
                        st.fail("C01/try_from_ymd/rejects-real-date", format!("({},{},{}) -> {:?}", y, m, d, e));
                    } else {
                        // any error kind whose own field is invalid is acceptable (precedence is unspecified)
                        let y_bad = !(1..=9999).contains(&y);
                        let m_bad = !(1..=12).contains(&m);
                        let d_bad = !(1..=31).contains(&d);
                        let dim_bad = !y_bad && !m_bad && !d_bad && d > dim(y as i64, m);
                        let ok = match e {
                            Error::DateOutOfRange => y_bad,
                            Error::InvalidMonth => m_bad,
                            Error::InvalidDay => d_bad,
                            Error::InvalidDate => dim_bad,
                            _ => false,
                        };
                        if !ok {
                            st.fail("C01/try_from_ymd/wrong-error-kind", format!("({},{},{}) -> {:?}", y, m, d, e));
                        }
                        if (y_bad as u8 + m_bad as u8 + d_bad as u8) > 1 {
                            st.unspecified += 1;
                        }
                    }
                }
            }
        }
        C::Text(y, m, d) => {
            // the triple as the text "YYYY-MM-DD": accepted exactly when it names a real date, and then as that date
            let valid = Cal::valid_ymd(y as i64, m, d);
            let text = format!("{:04}-{:02}-{:02}", y, m, d);
            sqldatetime::verif_hooks::set_clock(2021, 3, 11, 17, 6, 8, 912_345);
            st.op(Op::D_parse);
            let a = Date::parse(&text, "YYYY-MM-DD").ok();
            st.op(Op::S_json_de);
            let b = serde_json::from_str::<Date>(&format!("\"{}\"", text)).ok();
            for (how, r) in [("Date::parse", a), ("serde-text", b)] {
                match r {
                    Some(dt) => {
                        st.obs(Op::D_parse, &dt);
                        if !valid {
                            st.fail(format!("C01/text-triple/accepts-non-date/{}", how), format!("{:?} accepted as {:?}", text, dt.extract()));
                        } else if dt.extract() != (y, m, d) {
                            st.fail(format!("C01/text-triple/wrong-date/{}", how), format!("{:?} read as {:?}", text, dt.extract()));
                        }
                    }
                    None => {
                        if valid {
                            st.fail(format!("C01/text-triple/rejects-real-date/{}", how), format!("{:?} rejected", text));
                        }
                    }
                }
            }
        }
        C::Wire(v, w) => {
            use serde::de::IntoDeserializer;
            use serde::Deserialize;
            type E = serde::de::value::Error;
            st.op(Op::S_bin_de);
            let r: Result<Date, E> = match w {
                0 => Date::deserialize(IntoDeserializer::<E>::into_deserializer(v)),
                1 => Date::deserialize(IntoDeserializer::<E>::into_deserializer(v as u64)),
                2 => Date::deserialize(IntoDeserializer::<E>::into_deserializer(v as i32)),
                _ => Date::deserialize(IntoDeserializer::<E>::into_deserializer(v as u32)),
            };
            // the number the payload denotes
            let denoted: i128 = match w {
                0 => v as i128,
                1 => v as u64 as i128,
                2 => v as i32 as i128,
                _ => v as u32 as i128,
            };
            match r {
                Ok(d) => {
                    st.obs(Op::S_bin_de, &d);
                    if d.days() as i128 != denoted || !(MIN_DAY as i128..=MAX_DAY as i128).contains(&denoted) {
                        st.fail("C01/raw-day-number/accepts-out-of-range-wire-integer-as-another-day", format!("integer {} (width code {}) accepted as day {} {:?}", denoted, w, d.days(), d.extract()));
                    }
                }
                Err(_) => {
                    // the 32-bit signed form is the documented compact encoding: a real day number must be accepted there
                    if w == 2 && (MIN_DAY as i128..=MAX_DAY as i128).contains(&denoted) {
                        st.fail("C01/raw-day-number/i32-day-number-rejected", format!("integer {} rejected", denoted));
                    }
                }
            }
        }
        C::Pair(a, b) => {
            let (da, db) = match (Date::try_from_days(a), Date::try_from_days(b)) {
                (Ok(x), Ok(y)) => (x, y),
                _ => return st.fail("C01/try_from_days/rejects-in-range", format!("{} or {}", a, b)),
            };
            st.op(Op::D_cmp);
            let (ta, tb) = (cal().of(a), cal().of(b));
            let exp = ta.cmp(&tb);
            if da.cmp(&db) != exp || da.partial_cmp(&db) != Some(exp) || (da == db) != (exp == std::cmp::Ordering::Equal) || (da < db) != (exp == std::cmp::Ordering::Less) {
                st.fail("C01/order/not-triple-order", format!("{:?} vs {:?}: {:?}", ta, tb, da.cmp(&db)));
            }
            if exp == std::cmp::Ordering::Equal && h(&da) != h(&db) {
                st.fail("C01/eq-hash/equal-dates-hash-differently", format!("{:?}", ta));
            }
        }
    }
}

const YEARS_EXTRA: [i32; 8] = [i32::MIN, i32::MIN + 1, -(1 << 30), -10000, 20000, 1 << 30, i32::MAX - 1, i32::MAX];

/// cases evaluated as the first library call of a fresh thread and (leg `cold`) of a fresh process
pub fn cold_list() -> Vec<C> {
    vec![C::Day(0), C::Day(-1), C::Day(1), C::Day(MIN_DAY), C::Day(MAX_DAY), C::Day(11_016), C::Triple(1970, 1, 1), C::Triple(0, 1, 1), C::Triple(1, 1, 1), C::Triple(9999, 12, 31), C::Triple(1900, 2, 29), C::Pair(0, 0), C::Pair(-1, 0)]
}

pub fn run(ctx: &Ctx, st: &mut Stats) {
    cal();
    let stride = ctx.tier.pick(4001, 1, 1);
    // every in-range day number
    let n_idx = (N_DAYS as i64 + stride - 1) / stride;
    ctx.par(st, "days/all-in-range", true, 0, n_idx, |st, i, _| {
        let n = MIN_DAY + (i * stride) as i32;
        st.eval(&C::Day(n), check);
    });
    if stride == 1 {
        st.mark_exhaustive("days/all-in-range", "all 3,652,059 day numbers of 0001-01-01..9999-12-31");
    }
    // out-of-range neighbours and extremes
    st.stratum("days/out-of-range", true);
    let mut outs: Vec<i32> = vec![];
    for k in 1..=ctx.tier.pick(20, 2000, 2000) {
        outs.push(MIN_DAY - k);
        outs.push(MAX_DAY + k);
    }
    for base in [i32::MIN, i32::MAX, -(1 << 30), 1 << 30, -(1 << 24), 1 << 24, MIN_DAY * 2, MAX_DAY * 2, -1_000_000, 3_000_000] {
        for k in 0..50i32 {
            if let Some(v) = base.checked_add(k) {
                outs.push(v)
            }
            if let Some(v) = base.checked_sub(k) {
                outs.push(v)
            }
        }
    }
    outs.sort();
    outs.dedup();
    for n in outs {
        if !(MIN_DAY..=MAX_DAY).contains(&n) {
            st.eval(&C::OutDay(n), check);
        }
    }
    // the (year, month, day) grid
    let months: Vec<u32> = (0..=14).chain([u32::MAX]).collect();
    let days: Vec<u32> = (0..=33).chain([u32::MAX]).collect();
    let mut years: Vec<i32> = if ctx.tier == Tier::San { (-1..=10001).step_by(397).collect() } else { (-1..=10001).collect() };
    years.extend_from_slice(&YEARS_EXTRA);
    let per_year = (months.len() * days.len()) as i64;
    let (months, days, years) = (&months, &days, &years);
    ctx.par(st, "triples/grid", true, 0, years.len() as i64 * per_year, |st, i, _| {
        let y = years[(i / per_year) as usize];
        let r = i % per_year;
        let m = months[(r / days.len() as i64) as usize];
        let d = days[(r % days.len() as i64) as usize];
        st.eval(&C::Triple(y, m, d), check);
    });
    if ctx.tier != Tier::San {
        st.mark_exhaustive("triples/grid", "year -1..=10001 + 8 extreme years x month 0..=14,u32::MAX x day 0..=33,u32::MAX");
    }
    // years over the whole i32 range: a sweep with a stride below the width of the supported range, and random ones
    let ystride = ctx.tier.pick(40_000_003, ctx.q(4_999, 1_999), 499);
    ctx.par(st, "triples/years swept over the whole i32 range", true, 0, (1i64 << 32) / ystride, |st, i, _| {
        let y = (i32::MIN as i64 + i * ystride) as i32;
        let (m, d) = (1 + (i % 12) as u32, 1 + (i % 28) as u32);
        st.eval(&C::Triple(y, m, d), check);
        st.eval(&C::Triple(y, 2, 29), check);
    });
    let nry = ctx.tier.pick(500, 1_000_000, ctx.big(5_000_000, 60_000_000));
    ctx.par(st, "triples/random years of any magnitude", false, 0, nry, |st, _, rng| {
        let y = match rng.below(3) {
            0 => rng.next() as i32,
            1 => (rng.next() as i32) >> rng.below(20),
            _ => rng.range_i64(-30_000, 40_000) as i32,
        };
        let (m, d) = (rng.range_i64(0, 13) as u32, rng.range_i64(0, 32) as u32);
        st.eval_h(mix(y as u64, (m * 64 + d) as u64), &C::Triple(y, m, d), check);
    });
    // raw day numbers arriving as integers of other wire widths (self-describing binary formats)
    let nw = ctx.tier.pick(300, 300_000, 3_000_000);
    ctx.par(st, "raw day numbers as 64/32-bit signed/unsigned wire integers (low 32 bits a real day number)", false, 0, nw, |st, i, rng| {
        let d = match rng.below(3) {
            0 => rng.range_i64(MIN_DAY as i64, MAX_DAY as i64),
            1 => *rng.pick(&[MIN_DAY as i64, MAX_DAY as i64, 0, -1, 1, MIN_DAY as i64 - 1, MAX_DAY as i64 + 1]),
            _ => rng.next() as i32 as i64,
        };
        let k = match rng.below(4) {
            0 => 0,
            1 => *rng.pick(&[1i64, -1, 2, -2, 1 << 20, i32::MAX as i64, i32::MIN as i64]),
            _ => rng.next() as i32 as i64,
        };
        let v = k.wrapping_shl(32).wrapping_add(d);
        let w = (i % 4) as u8;
        st.eval_h(mix(v as u64, w as u64), &C::Wire(v, w), check);
    });
    // history: the same oracles in orders an ascending sweep never produces (pure functions must not care)
    let nh = ctx.tier.pick(200, 300_000, 3_000_000);
    ctx.par(st, "history: day numbers at power-of-two distances (A, A+-2^k, A) and A,B,A", false, 0, nh, |st, i, rng| {
        let a = rng.range_i64(MIN_DAY as i64, MAX_DAY as i64);
        let b = if i % 2 == 0 { a + (if rng.chance(1, 2) { 1 } else { -1 }) * (1i64 << rng.below(22)) } else { rng.range_i64(MIN_DAY as i64, MAX_DAY as i64) };
        if !(MIN_DAY as i64..=MAX_DAY as i64).contains(&b) {
            return;
        }
        st.eval_hist(mix(a as u64, b as u64), vec![C::Day(a as i32), C::Day(b as i32), C::Day(a as i32)], check);
    });
    let np = ctx.tier.pick(300, 300_000, 3_000_000);
    ctx.par(st, "history: other operations on related dates (primers), then the judged case; also A,A", false, 0, np, |st, i, rng| {
        let n = rng.range_i64(MIN_DAY as i64, MAX_DAY as i64);
        if i % 8 == 0 {
            st.eval_hist(mix(n as u64, 0xAA), vec![C::Day(n as i32), C::Day(n as i32)], check);
        } else {
            let pr = crate::primers::gen_some(rng, &[n], 0, &[]);
            st.eval_primed(mix(n as u64, i as u64), pr, C::Day(n as i32), check);
        }
    });
    // triples as text, alone and in the history "a real date, then a non-date twice in a row"
    let ntx = ctx.tier.pick(200, 200_000, 2_000_000);
    ctx.par(st, "text triples: alone; history valid, invalid, invalid", false, 0, ntx, |st, i, rng| {
        let y = rng.range_i64(0, 9999) as i32;
        let m = if rng.chance(1, 8) { rng.range_i64(0, 14) as u32 } else { rng.range_i64(1, 12) as u32 };
        let d = if rng.chance(1, 2) { rng.range_i64(27, 33) as u32 } else { rng.range_i64(0, 33) as u32 };
        let c = C::Text(y, m, d);
        if i % 3 == 0 {
            st.eval_h(mix(y as u64, (m * 64 + d) as u64), &c, check);
        } else {
            let (gy, gm, gd) = cal().of(rng.range_i64(MIN_DAY as i64, MAX_DAY as i64) as i32);
            st.eval_hist(mix(mix(y as u64, (m * 64 + d) as u64), mix(gy as u64, (gm * 64 + gd) as u64)), vec![C::Text(gy, gm, gd), c, c, C::Text(gy, gm, gd)], check);
        }
    });
    // small steps: A, then A + delta for every delta in -70..=70, A around every month end (a stepping shortcut must
    // carry across two month ends when the step skips February)
    let ystep = ctx.tier.pick(1999, 23, 1);
    ctx.par(st, "history: A then A+delta, delta -70..=70, A around every month end", true, 0, (9999 + ystep - 1) / ystep, |st, i, _| {
        let y = 1 + i * ystep;
        for a in crate::pools::month_end_days(y) {
            for delta in -70i64..=70 {
                let b = a + delta;
                if (MIN_DAY as i64..=MAX_DAY as i64).contains(&b) {
                    st.eval_hist(mix(a as u64, b as u64), vec![C::Day(a as i32), C::Day(b as i32)], check);
                }
            }
        }
    });
    // months and days of any magnitude (a table index taken modulo a power of two must not alias a real month)
    let nwm = ctx.tier.pick(300, 400_000, 4_000_000);
    ctx.par(st, "triples/months and days of any magnitude", false, 0, nwm, |st, _, rng| {
        let y = if rng.chance(1, 8) { rng.next() as i32 } else { rng.range_i64(-5, 10_005) as i32 };
        let wide = |rng: &mut Rng, hi: i64| -> u32 {
            match rng.below(5) {
                0 => rng.range_i64(0, hi) as u32,
                1 => rng.range_i64(0, 300) as u32,
                2 => ((1u64 << rng.below(32)) as i64 + rng.range_i64(-1, (hi).min(31))) as u32,
                3 => (rng.range_i64(1, hi) as u32).wrapping_add((rng.below(1 << 27) as u32) << 4),
                _ => rng.next() as u32,
            }
        };
        let (m, d) = (wide(rng, 14), wide(rng, 33));
        st.eval_h(mix(y as u64, mix(m as u64, d as u64)), &C::Triple(y, m, d), check);
    });
    ctx.par(st, "history: all day numbers descending", true, 0, n_idx, |st, i, _| {
        st.eval(&C::Day(MAX_DAY - (i * stride) as i32), check);
    });
    cold_threads(st, "history: first call on a fresh thread", cold_list(), check);
    // ordering / hashing on random pairs (consecutive pairs are part of days/all-in-range)
    let npairs = ctx.tier.pick(2_000, 300_000, ctx.big(3_000_000, 40_000_000));
    ctx.par(st, "order/random-pairs", false, 0, npairs, |st, _, rng| {
        let a = rng.range_i64(MIN_DAY as i64, MAX_DAY as i64) as i32;
        let b = match rng.below(4) {
            0 => a,
            1 => (a as i64 + rng.range_i64(-40, 40)).clamp(MIN_DAY as i64, MAX_DAY as i64) as i32,
            _ => rng.range_i64(MIN_DAY as i64, MAX_DAY as i64) as i32,
        };
        st.eval_h(mix(a as u64, b as u64), &C::Pair(a, b), check);
    });
}

pub fn replay(v: &Value, st: &mut Stats) -> bool {
    let c = match jstr(v, "kind").as_str() {
        "day" => C::Day(ji64(v, "n") as i32),
        "outday" => C::OutDay(ji64(v, "n") as i32),
        "triple" => C::Triple(ji64(v, "y") as i32, ji64(v, "m") as u32, ji64(v, "d") as u32),
        "pair" => C::Pair(ji64(v, "a") as i32, ji64(v, "b") as i32),
        "wire-integer" => C::Wire(ji64(v, "v"), ji64(v, "width") as u8),
        "text-triple" => C::Text(ji64(v, "y") as i32, ji64(v, "m") as u32, ji64(v, "d") as u32),
        _ => return false,
    };
    st.eval(&c, check);
    true
}
