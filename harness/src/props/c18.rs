//! C18 - missing date fields default from the current local date, and only then (clock injected through the hook).
use crate::cal::cal;
use crate::core::*;
use crate::props::c05::obs_lv;
use crate::spell::{denote, Clock, Given};
use crate::tok::*;
use serde_json::{json, Value};
use sqldatetime::verif_hooks;
use sqldatetime::{Date, Formatter, OracleDate, Time, Timestamp};
use std::convert::TryFrom;

pub struct Scn {
    pub ty: Ty,
    pub pic: &'static str,
    pub text: &'static str,
    pub given: Given,
    pub f: Formatter,
    /// complete pictures must not depend on the clock at all
    pub complete: bool,
}

fn g() -> Given {
    Given::default()
}
fn year(v: i64, digits: usize, n: usize) -> Option<(i64, usize, usize)> {
    Some((v, digits, n))
}

pub fn scenarios(st: &mut Stats) -> Vec<Scn> {
    st.stratum("scenario pictures (compiled inside the panic boundary)", true);
    let mut v: Vec<(Ty, &'static str, &'static str, Given, bool)> = vec![];
    // ---- partial pictures: defaults matter
    for ty in [Ty::Date, Ty::Ts, Ty::Ora] {
        v.push((ty, "DD", "31", Given { day: Some(31), ..g() }, false));
        v.push((ty, "DD", "30", Given { day: Some(30), ..g() }, false));
        v.push((ty, "DD", "29", Given { day: Some(29), ..g() }, false));
        v.push((ty, "DD", "1", Given { day: Some(1), ..g() }, false));
        v.push((ty, "MM", "02", Given { month: Some(2), ..g() }, false));
        v.push((ty, "MM", "12", Given { month: Some(12), ..g() }, false));
        v.push((ty, "MON", "feb", Given { month: Some(2), ..g() }, false));
        v.push((ty, "MM-DD", "02-29", Given { month: Some(2), day: Some(29), ..g() }, false));
        v.push((ty, "MM-DD", "02-28", Given { month: Some(2), day: Some(28), ..g() }, false));
        v.push((ty, "DD.MM", "31.12", Given { month: Some(12), day: Some(31), ..g() }, false));
        v.push((ty, "YYYY", "2020", Given { year: year(2020, 4, 4), ..g() }, false));
        v.push((ty, "YYYY", "9999", Given { year: year(9999, 4, 4), ..g() }, false));
        v.push((ty, "YYYY DD", "1900 31", Given { year: year(1900, 4, 4), day: Some(31), ..g() }, false));
        v.push((ty, "DDD", "366", Given { doy: Some(366), ..g() }, false));
        v.push((ty, "DDD", "365", Given { doy: Some(365), ..g() }, false));
        v.push((ty, "DDD", "060", Given { doy: Some(60), ..g() }, false));
        v.push((ty, "DDD", "1", Given { doy: Some(1), ..g() }, false));
        v.push((ty, "DDD MM", "060 02", Given { doy: Some(60), month: Some(2), ..g() }, false));
        v.push((ty, "DDD MM", "060 03", Given { doy: Some(60), month: Some(3), ..g() }, false));
        v.push((ty, "DDD DD", "060 29", Given { doy: Some(60), day: Some(29), ..g() }, false));
        v.push((ty, "Y-MM-DD", "9-02-28", Given { year: year(9, 1, 1), month: Some(2), day: Some(28), ..g() }, false));
        v.push((ty, "Y-MM-DD", "0-02-29", Given { year: year(0, 1, 1), month: Some(2), day: Some(29), ..g() }, false));
        v.push((ty, "Y-MM-DD", "+4-12-31", Given { year: year(4, 1, 1), month: Some(12), day: Some(31), ..g() }, false));
        v.push((ty, "YY-MM-DD", "00-02-29", Given { year: year(0, 2, 2), month: Some(2), day: Some(29), ..g() }, false));
        v.push((ty, "YY-MM-DD", "12-01-01", Given { year: year(12, 2, 2), month: Some(1), day: Some(1), ..g() }, false));
        v.push((ty, "YY-MM-DD", "+12-01-01", Given { year: year(12, 2, 2), month: Some(1), day: Some(1), ..g() }, false));
        v.push((ty, "YY-MM-DD", "7-06-30", Given { year: year(7, 1, 2), month: Some(6), day: Some(30), ..g() }, false));
        v.push((ty, "YY-MM-DD", "99-12-31", Given { year: year(99, 2, 2), month: Some(12), day: Some(31), ..g() }, false));
        v.push((ty, "YYY-MM-DD", "026-03-04", Given { year: year(26, 3, 3), month: Some(3), day: Some(4), ..g() }, false));
        v.push((ty, "YYY-MM-DD", "999-12-31", Given { year: year(999, 3, 3), month: Some(12), day: Some(31), ..g() }, false));
        v.push((ty, "YYY-MM-DD", "0-02-29", Given { year: year(0, 1, 3), month: Some(2), day: Some(29), ..g() }, false));
        v.push((ty, "YY", "24", Given { year: year(24, 2, 2), ..g() }, false));
        v.push((ty, "DAY", "monday", Given { dow: Some(1), ..g() }, false));
        v.push((ty, "DY DD", "sun 15", Given { dow: Some(0), day: Some(15), ..g() }, false));
        v.push((ty, "D", "7", Given { dow: Some(6), ..g() }, false));
        // ---- complete pictures: the clock must not matter
        v.push((ty, "YYYY-MM-DD", "2020-02-29", Given { year: year(2020, 4, 4), month: Some(2), day: Some(29), ..g() }, true));
        v.push((ty, "YYYY-MM-DD", "1900-02-29", Given { year: year(1900, 4, 4), month: Some(2), day: Some(29), ..g() }, true));
        v.push((ty, "YYYY-MM-DD", "0001-01-01", Given { year: year(1, 4, 4), month: Some(1), day: Some(1), ..g() }, true));
        v.push((ty, "DD MONTH YYYY", "31 december 9999", Given { year: year(9999, 4, 4), month: Some(12), day: Some(31), ..g() }, true));
        v.push((ty, "YYYY DDD", "2021 070", Given { year: year(2021, 4, 4), doy: Some(70), ..g() }, true));
        v.push((ty, "YYYY DDD", "2021 366", Given { year: year(2021, 4, 4), doy: Some(366), ..g() }, true));
        v.push((ty, "YY-MM-DD", "2012-01-01", Given { year: year(2012, 4, 2), month: Some(1), day: Some(1), ..g() }, true));
    }
    for ty in [Ty::Date, Ty::Ts, Ty::Ora] {
        // a two-digit year field given four digits is a full year: no completion, no clock
        v.push((ty, "YY-MM-DD", "0021-03-04", Given { year: year(21, 4, 2), month: Some(3), day: Some(4), ..g() }, true));
        v.push((ty, "YY-MM-DD", "+0007-12-31", Given { year: year(7, 4, 2), month: Some(12), day: Some(31), ..g() }, true));
        v.push((ty, "MM-DD DDD", "02-29 060", Given { month: Some(2), day: Some(29), doy: Some(60), ..g() }, false));
        v.push((ty, "DDD", "59", Given { doy: Some(59), ..g() }, false));
        // year + day-of-year determine the date; a day of month next to them must merely agree (no month field: none may leak in from the clock)
        v.push((ty, "YYYY DD DDD", "2021 10 100", Given { year: year(2021, 4, 4), day: Some(10), doy: Some(100), ..g() }, true));
        v.push((ty, "DDD/DD/YYYY", "091/31/2024", Given { year: year(2024, 4, 4), day: Some(31), doy: Some(91), ..g() }, true));
        v.push((ty, "YYYY DD DDD", "2023 29 029", Given { year: year(2023, 4, 4), day: Some(29), doy: Some(29), ..g() }, true));
        v.push((ty, "DD DDD", "10 100", Given { day: Some(10), doy: Some(100), ..g() }, false));
        v.push((ty, "DD DDD", "31 305", Given { day: Some(31), doy: Some(305), ..g() }, false));
        v.push((ty, "DDDDD", "06001", Given { day: Some(1), doy: Some(60), ..g() }, false));
        v.push((ty, "DDD", "61", Given { doy: Some(61), ..g() }, false));
    }
    // a weekday next to a day (and a month) but no year: under every clock some of the seven names is the right one
    const WD3: [&str; 7] = ["sun", "mon", "tue", "wed", "thu", "fri", "sat"];
    const WDF: [&str; 7] = ["sunday", "monday", "tuesday", "wednesday", "thursday", "friday", "saturday"];
    const WDT: [&str; 28] = ["sun 01", "mon 01", "tue 01", "wed 01", "thu 01", "fri 01", "sat 01", "sun 02", "mon 02", "tue 02", "wed 02", "thu 02", "fri 02", "sat 02",
        "sun 31", "mon 31", "tue 31", "wed 31", "thu 31", "fri 31", "sat 31", "sun 29", "mon 29", "tue 29", "wed 29", "thu 29", "fri 29", "sat 29"];
    const WDM: [&str; 21] = ["sun 14 feb", "mon 14 feb", "tue 14 feb", "wed 14 feb", "thu 14 feb", "fri 14 feb", "sat 14 feb", "sun 29 feb", "mon 29 feb", "tue 29 feb", "wed 29 feb", "thu 29 feb", "fri 29 feb",
        "sat 29 feb", "sun 01 mar", "mon 01 mar", "tue 01 mar", "wed 01 mar", "thu 01 mar", "fri 01 mar", "sat 01 mar"];
    const WDN: [&str; 7] = ["1 31 dec", "2 31 dec", "3 31 dec", "4 31 dec", "5 31 dec", "6 31 dec", "7 31 dec"];
    for (k, text) in WDT.iter().enumerate() {
        let day = [1i64, 2, 31, 29][k / 7];
        v.push((Ty::Date, "DY DD", *text, Given { dow: Some((k % 7) as u32), day: Some(day), ..g() }, false));
    }
    for (k, text) in WDM.iter().enumerate() {
        let (day, month) = [(14i64, 2i64), (29, 2), (1, 3)][k / 7];
        v.push(([Ty::Date, Ty::Ts, Ty::Ora][k % 3], "DY DD MON", *text, Given { dow: Some((k % 7) as u32), day: Some(day), month: Some(month), ..g() }, false));
    }
    for (k, text) in WDN.iter().enumerate() {
        v.push((Ty::Date, "D DD MON", *text, Given { dow: Some(k as u32), day: Some(31), month: Some(12), ..g() }, false));
    }
    for k in 0..7 {
        v.push((Ty::Ts, "DAY", WDF[k], Given { dow: Some(k as u32), ..g() }, false));
        v.push((Ty::Ora, "DY", WD3[k], Given { dow: Some(k as u32), ..g() }, false));
    }
    for ty in [Ty::Date, Ty::Ts, Ty::Ora] {
        // complete texts whose year comes last: nothing of the clock may be consulted on the way
        v.push((ty, "MM/DD/YYYY", "02/29/2024", Given { year: year(2024, 4, 4), month: Some(2), day: Some(29), ..g() }, true));
        v.push((ty, "MM-DD-YYYY", "02-29-2000", Given { year: year(2000, 4, 4), month: Some(2), day: Some(29), ..g() }, true));
        v.push((ty, "MONTH DD, YYYY", "february 29, 2020", Given { year: year(2020, 4, 4), month: Some(2), day: Some(29), ..g() }, true));
        v.push((ty, "MM/DD/YYYY", "02/29/2023", Given { year: year(2023, 4, 4), month: Some(2), day: Some(29), ..g() }, true));
        v.push((ty, "DD/MM/YYYY", "29/02/2024", Given { year: year(2024, 4, 4), month: Some(2), day: Some(29), ..g() }, true));
        v.push((ty, "MON DD YYYY", "feb 29 1900", Given { year: year(1900, 4, 4), month: Some(2), day: Some(29), ..g() }, true));
        // a year and a day, the month from the clock: the day must exist in that month of the *text's* year
        v.push((ty, "YYYY DD", "2024 29", Given { year: year(2024, 4, 4), day: Some(29), ..g() }, false));
        v.push((ty, "YYYY DD", "2023 29", Given { year: year(2023, 4, 4), day: Some(29), ..g() }, false));
        v.push((ty, "YYYY DD", "2024 30", Given { year: year(2024, 4, 4), day: Some(30), ..g() }, false));
        v.push((ty, "DD YYYY", "31 2024", Given { year: year(2024, 4, 4), day: Some(31), ..g() }, false));
        v.push((ty, "YY DD", "24 29", Given { year: year(24, 2, 2), day: Some(29), ..g() }, false));
    }
    for ty in [Ty::Ts, Ty::Ora] {
        // a meridian without an hour field: the omitted 12-hour field is 12
        v.push((ty, "PM", "PM", Given { pm: Some(true), ..g() }, false));
        v.push((ty, "AM", "am", Given { pm: Some(false), ..g() }, false));
        v.push((ty, "DD P.M.", "15 p.m.", Given { day: Some(15), pm: Some(true), ..g() }, false));
        v.push((ty, "HH24:MI", "17:06", Given { hour24: Some(17), minute: Some(6), ..g() }, false));
        v.push((ty, "HH:MI", "05:30", Given { hour12: Some(5), minute: Some(30), has_hour12_field: true, ..g() }, false));
        v.push((ty, "HH:MI PM", "05:30 pm", Given { hour12: Some(5), minute: Some(30), pm: Some(true), has_hour12_field: true, ..g() }, false));
        v.push((ty, "DD HH24", "31 23", Given { day: Some(31), hour24: Some(23), ..g() }, false));
        v.push((ty, "MI:SS", "59:59", Given { minute: Some(59), second: Some(59), ..g() }, false));
        v.push((ty, "MM-DD HH:MI AM", "02-29", Given { month: Some(2), day: Some(29), has_hour12_field: true, ..g() }, false));
        v.push((ty, "YYYY-MM-DD HH:MI:SS", "2021-03-11", Given { year: year(2021, 4, 4), month: Some(3), day: Some(11), has_hour12_field: true, ..g() }, true));
        v.push((ty, "YYYY-MM-DD HH24:MI:SS", "2021-03-11 17:06:08", Given { year: year(2021, 4, 4), month: Some(3), day: Some(11), hour24: Some(17), minute: Some(6), second: Some(8), ..g() }, true));
    }
    v.push((Ty::Ts, "HH24:MI:SS.FF", "23:59:59.9999996", Given { hour24: Some(23), minute: Some(59), second: Some(59), frac: Some("9999996".into()), ..g() }, false));
    v.push((Ty::Ts, "SS.FF3", "07.125", Given { second: Some(7), frac: Some("125".into()), ..g() }, false));
    // times of day and intervals never depend on the clock
    v.push((Ty::Time, "HH24:MI:SS", "17:06:08", Given { hour24: Some(17), minute: Some(6), second: Some(8), ..g() }, true));
    v.push((Ty::Time, "HH:MI", "", Given { has_hour12_field: true, ..g() }, true));
    v.push((Ty::Time, "MI", "5", Given { minute: Some(5), ..g() }, true));
    v.push((Ty::Time, "MI:SS P.M.", "15:20 p.m.", Given { minute: Some(15), second: Some(20), pm: Some(true), ..g() }, true));
    v.push((Ty::Time, "AM", "AM", Given { pm: Some(false), ..g() }, true));
    v.push((Ty::Time, "PM", "pm", Given { pm: Some(true), ..g() }, true));
    v.push((Ty::YM, "YY-MM", "12-05", Given { year: year(12, 9, 9), month: Some(5), ..g() }, true));
    v.push((Ty::YM, "MM", "-05", Given { month: Some(5), negative: true, ..g() }, true));
    v.push((Ty::YM, "Y", "7", Given { year: year(7, 9, 9), ..g() }, true));
    v.push((Ty::DT, "HH24:MI", "03:00", Given { hour24: Some(3), minute: Some(0), ..g() }, true));
    v.push((Ty::DT, "DD", "-4", Given { day: Some(4), negative: true, ..g() }, true));
    let mut out = vec![];
    for (ty, pic, text, given, complete) in v {
        if let Some(f) = compile_picture(st, pic, Some("C18/documented-picture-rejected")) {
            out.push(Scn { ty, pic, text, given, f, complete });
        }
    }
    out
}

pub struct K<'a> {
    pub day: i32,
    pub tod: i64,
    /// None = the `now` constructors and Time conversions
    pub scn: Option<&'a Scn>,
    pub scn_idx: usize,
}
impl<'a> Case for K<'a> {
    fn to_json(&self) -> Value {
        let (y, m, d) = cal().of(self.day);
        match self.scn {
            Some(s) => json!({"kind": "parse-under-clock", "clock_day": self.day, "clock_tod_us": self.tod, "clock": format!("{:04}-{:02}-{:02}", y, m, d), "scenario": self.scn_idx,
                              "type": s.ty.name(), "picture": s.pic, "text": s.text}),
            None => json!({"kind": "now", "clock_day": self.day, "clock_tod_us": self.tod, "clock": format!("{:04}-{:02}-{:02}", y, m, d)}),
        }
    }
}

fn set(day: i32, tod: i64) -> bool {
    let (y, m, d) = cal().of(day);
    verif_hooks::set_clock(y, m, d, (tod / 3_600_000_000) as u32, (tod / 60_000_000 % 60) as u32, (tod / 1_000_000 % 60) as u32, (tod % 1_000_000) as u32)
}

pub fn check(st: &mut Stats, c: &K) {
    if !set(c.day, c.tod) {
        st.skipped += 1;
        return;
    }
    let reads0 = verif_hooks::clock_reads();
    let (y, m, _) = cal().of(c.day);
    match c.scn {
        None => {
            let exp_ts = c.day as i64 * DAY_US + c.tod;
            st.op(Op::D_now);
            match Date::now() {
                Ok(d) => {
                    st.obs(Op::D_now, &d);
                    if d.days() != c.day {
                        st.fail("C18/now/Date", format!("clock day {} -> Date::now() = {}", c.day, d.days()));
                    }
                }
                Err(e) => st.fail("C18/now/Date", format!("clock day {} -> {:?}", c.day, e)),
            }
            st.op(Op::TS_now);
            match Timestamp::now() {
                Ok(t) => {
                    st.obs(Op::TS_now, &t);
                    if t.usecs() != exp_ts {
                        st.fail("C18/now/Timestamp", format!("clock {} -> Timestamp::now() = {}", exp_ts, t.usecs()));
                    }
                }
                Err(e) => st.fail("C18/now/Timestamp", format!("clock {} -> {:?}", exp_ts, e)),
            }
            st.op(Op::O_now);
            match OracleDate::now() {
                Ok(t) => {
                    st.obs(Op::O_now, &t);
                    if t.usecs() != exp_ts - exp_ts.rem_euclid(1_000_000) {
                        st.fail("C18/now/OracleDate", format!("clock {} -> OracleDate::now() = {}", exp_ts, t.usecs()));
                    }
                }
                Err(e) => st.fail("C18/now/OracleDate", format!("clock {} -> {:?}", exp_ts, e)),
            }
            // a time of day becomes that time on the current local date
            for t in [0i64, 1, 43_200_000_000, 3_723_000_004, DAY_US - 1, 1 << 32, DAY_US - (1 << 32), (1 << 36) + 1, DAY_US - 20 * (1i64 << 32)] {
                let tm = Time::try_from_usecs(t).expect("time");
                st.op(Op::TS_try_from_time);
                match Timestamp::try_from(tm) {
                    Ok(x) => {
                        st.obs(Op::TS_try_from_time, &x);
                        if x.usecs() != c.day as i64 * DAY_US + t {
                            st.fail(if c.day < 0 { "C18/time-to-timestamp/before-epoch" } else { "C18/time-to-timestamp" }, format!("clock day {} time {} -> {}", c.day, t, x.usecs()));
                        }
                    }
                    Err(e) => st.fail("C18/time-to-timestamp", format!("clock day {} time {} -> {:?}", c.day, t, e)),
                }
                st.op(Op::O_try_from_time);
                match OracleDate::try_from(tm) {
                    Ok(x) => {
                        st.obs(Op::O_try_from_time, &x);
                        if x.usecs() != c.day as i64 * DAY_US + t - t % 1_000_000 {
                            st.fail(if c.day < 0 { "C18/time-to-oracle-date/before-epoch" } else { "C18/time-to-oracle-date" }, format!("clock day {} time {} -> {}", c.day, t, x.usecs()));
                        }
                    }
                    Err(e) => st.fail("C18/time-to-oracle-date", format!("clock day {} time {} -> {:?}", c.day, t, e)),
                }
            }
            st.bumpn("clock_reads_by_now_and_conversions", verif_hooks::clock_reads() - reads0);
        }
        Some(s) => {
            st.op(Op::F_parse);
            let exp = denote(s.ty, &s.given, Clock { year: y, month: m });
            let got = parse_as(s.ty, &s.f, s.text);
            if let Ok(lv) = &got {
                obs_lv(st, Op::F_parse, lv);
            }
            let reads = verif_hooks::clock_reads() - reads0;
            if s.complete {
                st.bumpn("clock_reads_during_complete_pictures", reads);
            } else {
                st.bumpn("clock_reads_during_partial_pictures", reads);
            }
            let what = if s.complete { "complete-picture-depends-on-clock" } else { "default-from-clock" };
            match (exp, got) {
                (Ok(v), Ok(lv)) => {
                    let same = v.to_lib().map(|e| e.raw() == lv.raw()).unwrap_or(false);
                    if !same {
                        st.fail(format!("C18/{}/{}/{}/wrong-value", what, s.ty.name(), s.pic), format!("clock {:04}-{:02}: {:?} under {:?}: got {} expected {}", y, m, s.text, s.pic, lv.to_v().show(), v.show()));
                    }
                }
                (Ok(v), Err(e)) => st.fail(format!("C18/{}/{}/{}/rejected", what, s.ty.name(), s.pic), format!("clock {:04}-{:02}: {:?} under {:?}: {:?}, expected {}", y, m, s.text, s.pic, e, v.show())),
                (Err(()), Ok(lv)) => st.fail(format!("C18/{}/{}/{}/accepted-nonexistent-date", what, s.ty.name(), s.pic), format!("clock {:04}-{:02}: {:?} under {:?}: got {} - the defaulted date does not exist, an error is required", y, m, s.text, s.pic, lv.to_v().show())),
                (Err(()), Err(_)) => {}
            }
        }
    }
    verif_hooks::clear_clock();
}

/// The clock inside a leap second (chrono: second 59 with 1,000,000..1,999,999 microseconds).
pub struct Leap {
    pub day: i32,
    pub us: u32,
}
impl Case for Leap {
    fn to_json(&self) -> Value {
        json!({"kind": "now-in-leap-second", "clock_day": self.day, "leap_us": self.us})
    }
}
pub fn check_leap(st: &mut Stats, c: &Leap) {
    let (y, m, d) = cal().of(c.day);
    if !verif_hooks::set_clock(y, m, d, 23, 59, 59, 1_000_000 + c.us) {
        st.skipped += 1;
        return;
    }
    // the date of the leap second is unambiguous
    st.op(Op::D_now);
    match Date::now() {
        Ok(x) => {
            if x.days() != c.day {
                st.fail("C18/now/Date/leap-second", format!("clock day {} 23:59:60.{:06} -> Date::now() = {}", c.day, c.us, x.days()));
            }
        }
        Err(e) => st.fail("C18/now/Date/leap-second", format!("clock day {} 23:59:60.{:06} -> {:?}", c.day, c.us, e)),
    }
    // SQL timestamps have no second 60: an error or an instant between 23:59:59 and the next midnight are both "the current time"
    let lo = c.day as i64 * DAY_US + DAY_US - 1_000_000;
    st.op(Op::TS_now);
    if let Ok(t) = Timestamp::now() {
        st.obs(Op::TS_now, &t);
        if !(lo..=(lo + 1_000_000).min(TS_MAX)).contains(&t.usecs()) {
            st.fail("C18/now/Timestamp/leap-second", format!("clock day {} 23:59:60.{:06} -> {}", c.day, c.us, t.usecs()));
        }
    }
    st.op(Op::O_now);
    if let Ok(t) = OracleDate::now() {
        st.obs(Op::O_now, &t);
        if !(lo..=(lo + 1_000_000).min(ORA_MAX)).contains(&t.usecs()) || t.usecs().rem_euclid(1_000_000) != 0 {
            st.fail("C18/now/OracleDate/leap-second", format!("clock day {} 23:59:60.{:06} -> {}", c.day, c.us, t.usecs()));
        }
    }
    verif_hooks::clear_clock();
}

pub fn run(ctx: &Ctx, st: &mut Stats) {
    cal();
    let scns = scenarios(st);
    let ns = scns.len() as i64;
    let tods = [0i64, 45_296_789_012, DAY_US - 1];
    let scns_ref = &scns;
    let stride = ctx.tier.pick(300_011, ctx.q(9, 3), 1);
    // sanitizer slices step through the days directly (a 3.6M-iteration skip loop costs minutes under Miri)
    let step = if ctx.tier == Tier::San { stride } else { 1 };
    ctx.par(st, "every current local date x 3 times of day x scenarios", true, 0, (N_DAYS as i64 + step - 1) / step, |st, i, _| {
        let i = i * step;
        let day = MIN_DAY + i as i32;
        let (y, m, _) = cal().of(day);
        // quick: every day of January, February, December and of century years, strided elsewhere
        let dense = ctx.tier == Tier::Quick && (m <= 2 || m == 12 || y % 100 == 0) && i % 3 == 0;
        if i % stride != 0 && !dense && ctx.tier != Tier::Thorough {
            return;
        }
        for (ti, &tod) in tods.iter().enumerate() {
            st.eval(&K { day, tod, scn: None, scn_idx: 0 }, check);
            for (k, s) in scns_ref.iter().enumerate() {
                // the time of day of the clock is irrelevant for parsing: rotate scenarios over the three times
                if (k + ti) % 3 == 0 || ctx.tier == Tier::Thorough && (k + ti) % 3 == 1 {
                    st.eval(&K { day, tod, scn: Some(s), scn_idx: k }, check);
                }
            }
        }
        let _ = ns;
    });
    if ctx.tier == Tier::Thorough {
        st.mark_exhaustive("every current local date x 3 times of day x scenarios", &format!("all 3,652,059 possible current dates x 3 times of day x {} picture/text scenarios (2/3 of them per time of day)", scns.len()));
    }
    st.stratum("now constructors with the clock inside a leap second", true);
    let lstep = ctx.tier.pick(400_009, 1009, 11);
    let mut day = MIN_DAY as i64;
    while day <= MAX_DAY as i64 - 1 {
        for us in [0u32, 1, 499_999, 500_000, 999_999] {
            st.eval(&Leap { day: day as i32, us }, check_leap);
        }
        day += lstep;
    }
    // the leap second that ends the last supported day: nothing after 9999-12-31 23:59:59.999999 is a value
    for us in [0u32, 1, 250_000, 499_999, 500_000, 999_999] {
        st.eval(&Leap { day: MAX_DAY, us }, check_leap);
        st.eval(&Leap { day: MAX_DAY - 1, us }, check_leap);
        st.eval(&Leap { day: MIN_DAY, us }, check_leap);
    }
    // complete pictures under two very different clocks must agree with each other (no model involved)
    st.stratum("complete pictures under two clocks", true);
    for (k, s) in scns.iter().enumerate().filter(|(_, s)| s.complete) {
        let mut res = vec![];
        for day in [MIN_DAY, -1, 0, 18_697, MAX_DAY, crate::cal::days_from_civil(2000, 2, 29) as i32, crate::cal::days_from_civil(1999, 12, 31) as i32] {
            set(day, 12_345_678_901);
            res.push(parse_as(s.ty, &s.f, s.text).map(|lv| lv.raw()).map_err(|_| ()));
        }
        verif_hooks::clear_clock();
        let c = K { day: 0, tod: 0, scn: Some(s), scn_idx: k };
        st.eval(&c, |st, _| {
            if res.iter().any(|r| *r != res[0]) {
                st.fail(format!("C18/complete-picture-depends-on-clock/{}/{}/differs-between-clocks", s.ty.name(), s.pic), format!("{:?} under {:?}: {:?}", s.text, s.pic, res));
            }
        });
    }
    st.bumpn("scenarios", scns.len() as u64);
}

pub fn replay(v: &Value, st: &mut Stats) -> bool {
    let scns = scenarios(st);
    let (day, tod) = (ji64(v, "clock_day") as i32, ji64(v, "clock_tod_us"));
    match jstr(v, "kind").as_str() {
        "now" => st.eval(&K { day, tod, scn: None, scn_idx: 0 }, check),
        "now-in-leap-second" => st.eval(&Leap { day, us: ji64(v, "leap_us") as u32 }, check_leap),
        "parse-under-clock" => {
            // scenarios are identified by (type, picture, text), not by index, so that replays survive edits of the table
            let (ty, pic, text) = (jstr(v, "type"), jstr(v, "picture"), jstr(v, "text"));
            match scns.iter().enumerate().find(|(_, s)| s.ty.name() == ty && s.pic == pic && s.text == text) {
                Some((k, s)) => st.eval(&K { day, tod, scn: Some(s), scn_idx: k }, check),
                None => return false,
            }
        }
        _ => return false,
    }
    true
}
