//! C17 - Date, Timestamp and OracleDate agree on the same instant (metamorphic: no reference model).
use crate::cal::cal;
use crate::core::*;
use crate::kinds;
use crate::pools::*;
use crate::trmodel::*;
use serde_json::Value;
use sqldatetime::{Date, IntervalDT, IntervalYM, OracleDate, Timestamp};
use std::cmp::Ordering;

kinds!(K { DateVsTs = "Date-vs-Timestamp shared ops", OraVsTs = "OracleDate-vs-Timestamp shared ops", DateYm = "Date-vs-Timestamp month arithmetic", OraYm = "OracleDate-vs-Timestamp month arithmetic",
           DateDt = "Date-vs-Timestamp interval arithmetic", OraDt = "OracleDate-vs-Timestamp interval arithmetic", Diff = "differences through the three types", Cmp = "mixed comparisons" });
pub type C = G<K>;
impl Case for C {
    fn to_json(&self) -> Value {
        g_json(self.k.name(), self.a, self.b, self.c, self.f)
    }
}
fn us<T, E>(r: Result<T, E>, f: impl Fn(&T) -> i64) -> Option<i64> {
    r.ok().map(|v| f(&v))
}

pub fn check(st: &mut Stats, c: &C) {
    match c.k {
        K::DateVsTs => {
            // a = day number; the date must behave as the timestamp at its midnight
            let n = c.a;
            for u in UNITS {
                for round in [false, true] {
                    let d = lib_apply(round, u, TyK::Date, n, 0).ok();
                    let t = lib_apply(round, u, TyK::Ts, n, 0).ok();
                    st.op(if round { Op::D_round } else { Op::D_trunc });
                    st.op(if round { Op::TS_round } else { Op::TS_trunc });
                    if d != t {
                        st.fail(format!("C17/date-vs-timestamp/{}_{}", if round { "round" } else { "trunc" }, u.name()), format!("day {} {:?}: Date -> {:?}, Timestamp at midnight -> {:?}", n, cal().of(n as i32), d, t));
                    }
                }
            }
            let d = Date::try_from_days(n as i32).expect("date");
            let t = Timestamp::from(d);
            st.op(Op::D_last_day_of_month);
            st.op(Op::TS_last_day_of_month);
            let (ld, lt) = (d.last_day_of_month(), t.last_day_of_month());
            st.obs(Op::D_last_day_of_month, &ld);
            st.obs(Op::TS_last_day_of_month, &lt);
            if ld.days() as i64 * DAY_US != lt.usecs() {
                st.fail("C17/date-vs-timestamp/last_day_of_month", format!("day {}: {} vs {}", n, ld.days(), lt.usecs()));
            }
        }
        K::OraVsTs => {
            // a = whole-second microsecond count
            let (n, tod) = (c.a.div_euclid(DAY_US), c.a.rem_euclid(DAY_US));
            for u in UNITS {
                for round in [false, true] {
                    let o = lib_apply(round, u, TyK::Ora, n, tod).ok();
                    let t = lib_apply(round, u, TyK::Ts, n, tod).ok();
                    st.op(if round { Op::O_round } else { Op::O_trunc });
                    st.op(if round { Op::TS_round } else { Op::TS_trunc });
                    // the only legitimate difference: a timestamp result in the last second of 9999 is not an OracleDate (cannot happen for boundaries)
                    if o != t {
                        st.fail(format!("C17/oracle-vs-timestamp/{}_{}", if round { "round" } else { "trunc" }, u.name()), format!("{}: OracleDate -> {:?}, Timestamp -> {:?}", c.a, o, t));
                    }
                }
            }
            let o = OracleDate::try_from_usecs(c.a).expect("ora");
            let t = Timestamp::from(o);
            st.op(Op::O_last_day_of_month);
            let (lo, lt) = (o.last_day_of_month(), t.last_day_of_month());
            st.obs(Op::O_last_day_of_month, &lo);
            if lo.usecs() != lt.usecs() {
                st.fail("C17/oracle-vs-timestamp/last_day_of_month", format!("{}: {} vs {}", c.a, lo.usecs(), lt.usecs()));
            }
        }
        K::DateYm => {
            let d = Date::try_from_days(c.a as i32).expect("date");
            let t = Timestamp::from(d);
            let i = IntervalYM::try_from_months(c.b as i32).expect("ym");
            st.op(Op::D_add_interval_ym);
            st.op(Op::D_sub_interval_ym);
            st.op(Op::TS_add_interval_ym);
            st.op(Op::TS_sub_interval_ym);
            let (a1, a2) = (us(d.add_interval_ym(i), |v| v.usecs()), us(t.add_interval_ym(i), |v| v.usecs()));
            let (s1, s2) = (us(d.sub_interval_ym(i), |v| v.usecs()), us(t.sub_interval_ym(i), |v| v.usecs()));
            if a1 != a2 {
                st.fail("C17/date-vs-timestamp/add_interval_ym", format!("day {} + {} months: {:?} vs {:?}", c.a, c.b, a1, a2));
            }
            if s1 != s2 {
                st.fail("C17/date-vs-timestamp/sub_interval_ym", format!("day {} - {} months: {:?} vs {:?}", c.a, c.b, s1, s2));
            }
        }
        K::OraYm => {
            let o = OracleDate::try_from_usecs(c.a).expect("ora");
            let t = Timestamp::from(o);
            let i = IntervalYM::try_from_months(c.b as i32).expect("ym");
            st.op(Op::O_add_interval_ym);
            st.op(Op::O_sub_interval_ym);
            let (a1, a2) = (us(o.add_interval_ym(i), |v| v.usecs()), us(t.add_interval_ym(i), |v| v.usecs()));
            let (s1, s2) = (us(o.sub_interval_ym(i), |v| v.usecs()), us(t.sub_interval_ym(i), |v| v.usecs()));
            if a1 != a2 {
                st.fail("C17/oracle-vs-timestamp/add_interval_ym", format!("{} + {} months: {:?} vs {:?}", c.a, c.b, a1, a2));
            }
            if s1 != s2 {
                st.fail("C17/oracle-vs-timestamp/sub_interval_ym", format!("{} - {} months: {:?} vs {:?}", c.a, c.b, s1, s2));
            }
        }
        K::DateDt => {
            let d = Date::try_from_days(c.a as i32).expect("date");
            let t = Timestamp::from(d);
            let i = IntervalDT::try_from_usecs(c.b).expect("dt");
            st.op(Op::D_add_interval_dt);
            st.op(Op::D_sub_interval_dt);
            let (a1, a2) = (us(d.add_interval_dt(i), |v| v.usecs()), us(t.add_interval_dt(i), |v| v.usecs()));
            let (s1, s2) = (us(d.sub_interval_dt(i), |v| v.usecs()), us(t.sub_interval_dt(i), |v| v.usecs()));
            if a1 != a2 || s1 != s2 {
                st.fail("C17/date-vs-timestamp/add-sub_interval_dt", format!("day {} +- {}: add {:?} vs {:?}, sub {:?} vs {:?}", c.a, c.b, a1, a2, s1, s2));
            }
        }
        K::OraDt => {
            let o = OracleDate::try_from_usecs(c.a).expect("ora");
            let t = Timestamp::from(o);
            let i = IntervalDT::try_from_usecs(c.b).expect("dt");
            st.op(Op::O_add_interval_dt);
            st.op(Op::O_sub_interval_dt);
            let fl = |x: Option<i64>| x.map(|v| v.div_euclid(1_000_000) * 1_000_000);
            let (a1, a2) = (us(o.add_interval_dt(i), |v| v.usecs()), fl(us(t.add_interval_dt(i), |v| v.usecs())));
            let (s1, s2) = (us(o.sub_interval_dt(i), |v| v.usecs()), fl(us(t.sub_interval_dt(i), |v| v.usecs())));
            if a1 != a2 || s1 != s2 {
                st.fail("C17/oracle-vs-timestamp/add-sub_interval_dt", format!("{} +- {}: add {:?} vs floor {:?}, sub {:?} vs floor {:?}", c.a, c.b, a1, a2, s1, s2));
            }
        }
        K::Diff => {
            // a, b whole-second counts; c = 1 when both are midnights (then Date differences are compared too)
            let (oa, ob) = (OracleDate::try_from_usecs(c.a).expect("ora"), OracleDate::try_from_usecs(c.b).expect("ora"));
            let (ta, tb) = (Timestamp::from(oa), Timestamp::from(ob));
            st.op(Op::TS_sub_timestamp);
            st.op(Op::O_sub_timestamp);
            st.op(Op::TS_oracle_sub_date);
            st.op(Op::O_sub_date);
            let base = ta.sub_timestamp(tb).usecs();
            if oa.sub_timestamp(tb).usecs() != base || ta.oracle_sub_date(ob).usecs() != base {
                st.fail("C17/differences/oracle-vs-timestamp", format!("{} - {}: ts {} ora.sub_timestamp {} ts.oracle_sub_date {}", c.a, c.b, base, oa.sub_timestamp(tb).usecs(), ta.oracle_sub_date(ob).usecs()));
            }
            let days = oa.sub_date(ob);
            let err = (days * 86_400.0 - (base / 1_000_000) as f64).abs();
            if !(err <= (base as f64 / 1e6).abs() * (2f64).powi(-50)) {
                st.fail("C17/differences/oracle-sub_date-vs-timestamp", format!("{} - {}: {} days vs {} us", c.a, c.b, days, base));
            }
            if c.a % DAY_US == 0 && c.b % DAY_US == 0 {
                let (da, db) = (Date::try_from_days((c.a / DAY_US) as i32).expect("date"), Date::try_from_days((c.b / DAY_US) as i32).expect("date"));
                st.op(Op::D_sub_date);
                st.op(Op::D_sub_timestamp);
                st.op(Op::TS_sub_date);
                if da.sub_date(db) as i64 * DAY_US != base || da.sub_timestamp(tb).usecs() != base || ta.sub_date(db).usecs() != base || days != da.sub_date(db) as f64 {
                    st.fail("C17/differences/date-vs-timestamp", format!("{} - {}: date {} days, ts {} us, ora {} days", c.a, c.b, da.sub_date(db), base, days));
                }
            } else if c.b % DAY_US == 0 {
                let db = Date::try_from_days((c.b / DAY_US) as i32).expect("date");
                st.op(Op::TS_sub_date);
                if ta.sub_date(db).usecs() != base {
                    st.fail("C17/differences/timestamp-sub_date", format!("{} - {}", c.a, c.b));
                }
            }
        }
        K::Cmp => {
            // a = timestamp usecs, b = other operand usecs (day-aligned => also as Date; second-aligned => also as OracleDate)
            let t = Timestamp::try_from_usecs(c.a).expect("ts");
            let e = c.a.cmp(&c.b);
            let chk = |st: &mut Stats, what: &str, pc: Option<Ordering>, eq: bool, ne: bool, lt: bool, le: bool, gt: bool, ge: bool, e: Ordering| {
                if pc != Some(e) || eq != (e == Ordering::Equal) || ne != (e != Ordering::Equal) || lt != (e == Ordering::Less) || le != (e != Ordering::Greater) || gt != (e == Ordering::Greater) || ge != (e != Ordering::Less) {
                    st.fail(format!("C17/compare/{}", what), format!("{} vs {}: partial_cmp {:?} == {} < {} <= {} > {} >= {}; converted values compare {:?}", c.a, c.b, pc, eq, lt, le, gt, ge, e));
                }
            };
            if c.b % DAY_US == 0 {
                let d = Date::try_from_days((c.b / DAY_US) as i32).expect("date");
                st.op(Op::TS_cmp_date);
                st.op(Op::D_cmp_ts);
                chk(st, "timestamp-vs-date", t.partial_cmp(&d), t == d, t != d, t < d, t <= d, t > d, t >= d, e);
                chk(st, "date-vs-timestamp", d.partial_cmp(&t), d == t, d != t, d < t, d <= t, d > t, d >= t, e.reverse());
            }
            if c.b % 1_000_000 == 0 && c.b <= ORA_MAX {
                let o = OracleDate::try_from_usecs(c.b).expect("ora");
                st.op(Op::TS_cmp_ora);
                st.op(Op::O_cmp_ts);
                chk(st, "timestamp-vs-oracle", t.partial_cmp(&o), t == o, t != o, t < o, t <= o, t > o, t >= o, e);
                chk(st, "oracle-vs-timestamp", o.partial_cmp(&t), o == t, o != t, o < t, o <= t, o > t, o >= t, e.reverse());
            }
            if c.a % 1_000_000 == 0 && c.a <= ORA_MAX && c.b % 1_000_000 == 0 && c.b <= ORA_MAX {
                use std::hash::{Hash, Hasher};
                let (x, y) = (OracleDate::try_from_usecs(c.a).expect("ora"), OracleDate::try_from_usecs(c.b).expect("ora"));
                st.op(Op::O_cmp);
                chk(st, "oracle-vs-oracle", x.partial_cmp(&y), x == y, x != y, x < y, x <= y, x > y, x >= y, e);
                let hh = |v: &OracleDate| {
                    let mut s = std::collections::hash_map::DefaultHasher::new();
                    v.hash(&mut s);
                    s.finish()
                };
                if x.cmp(&y) != e || (e == Ordering::Equal && hh(&x) != hh(&y)) {
                    st.fail("C17/compare/oracle-vs-oracle", format!("{} vs {}", c.a, c.b));
                }
            }
            if c.a % 1_000_000 == 0 && c.a <= ORA_MAX && c.b % DAY_US == 0 {
                let o = OracleDate::try_from_usecs(c.a).expect("ora");
                let d = Date::try_from_days((c.b / DAY_US) as i32).expect("date");
                st.op(Op::O_cmp_date);
                st.op(Op::D_cmp_ora);
                chk(st, "oracle-vs-date", o.partial_cmp(&d), o == d, o != d, o < d, o <= d, o > d, o >= d, e);
                chk(st, "date-vs-oracle", d.partial_cmp(&o), d == o, d != o, d < o, d <= o, d > o, d >= o, e.reverse());
            }
        }
    }
}

pub fn run(ctx: &Ctx, st: &mut Stats) {
    cal();
    let stride = ctx.tier.pick(20_011, 1, 1);
    ctx.par(st, "all dates: 24 trunc/round units + last_day_of_month, Date vs Timestamp", true, 0, (N_DAYS as i64 + stride - 1) / stride, |st, i, _| {
        st.eval(&C::ab(K::DateVsTs, MIN_DAY as i64 + i * stride, 0), check);
    });
    if stride == 1 {
        st.mark_exhaustive("all dates: 24 trunc/round units + last_day_of_month, Date vs Timestamp", "all 3,652,059 dates");
    }
    let times: Vec<i64> = time_pool().into_iter().filter(|t| t % 1_000_000 == 0).collect();
    let nt = times.len() as i64;
    let tstride = ctx.tier.pick(40_009, ctx.q(13, 3), 1);
    let times_ref = &times;
    ctx.par(st, "dates x whole-second critical times: OracleDate vs Timestamp", true, 0, (N_DAYS as i64 / tstride) * nt, |st, i, _| {
        let n = MIN_DAY as i64 + (i / nt) * tstride;
        st.eval(&C::ab(K::OraVsTs, n * DAY_US + times_ref[(i % nt) as usize], 0), check);
    });
    if tstride == 1 {
        st.mark_exhaustive("dates x whole-second critical times: OracleDate vs Timestamp", "all dates x whole-second critical times");
    }
    // month arithmetic through the three types
    let mstride = ctx.tier.pick(20_011, ctx.q(11, 3), 1);
    let offs: Vec<i64> = (-14..=14).chain([-1200, 1200, -119_988, 119_988, 24, -24, 120, -120, YM_LIM as i64, -(YM_LIM as i64), 48, -48, 96, -96, 2400, -2400, 3600, -3600, 4800, -4800, 12 * 104, -12 * 104, 12 * 96, -12 * 96]).collect();
    let offs_ref = &offs;
    ctx.par(st, "dates x month offsets: Date/OracleDate vs Timestamp", true, 0, N_DAYS as i64, |st, i, rng| {
        let n = MIN_DAY as i64 + i;
        let (_, _, d) = cal().of(n as i32);
        if i % mstride != 0 && !(d >= 28 && ctx.tier != Tier::San) {
            return;
        }
        for &k in offs_ref {
            st.eval(&C::ab(K::DateYm, n, k), check);
        }
        let t = *rng.pick(times_ref);
        for &k in offs_ref.iter().step_by(3) {
            st.eval(&C::ab(K::OraYm, n * DAY_US + t, k), check);
        }
    });
    // interval arithmetic
    st.stratum("pool: date/oracle-date x interval_dt", true);
    let dts = dt_pool();
    for &d in &date_pool() {
        for &i in &dts {
            st.eval(&C::ab(K::DateDt, d as i64, i), check);
        }
        for e in [-1i64, 0, 1] {
            for t in [TS_MIN, TS_MAX] {
                let i = t - d as i64 * DAY_US + e;
                if i.abs() <= DT_LIM {
                    st.eval(&C::ab(K::DateDt, d as i64, i), check);
                    st.eval(&C::ab(K::DateDt, d as i64, -i), check);
                }
            }
        }
    }
    let oras: Vec<i64> = ts_pool().iter().map(|u| u.div_euclid(1_000_000) * 1_000_000).filter(|u| (TS_MIN..=ORA_MAX).contains(u)).collect::<std::collections::BTreeSet<_>>().into_iter().collect();
    let oras_s: Vec<i64> = oras.iter().step_by((oras.len() / ctx.tier.pick(20, 400, 2000)).max(1)).copied().collect();
    for &o in &oras_s {
        for &i in &dts {
            st.eval(&C::ab(K::OraDt, o, i), check);
        }
        for i in [1i64, -1, 499_999, 500_000, 999_999, -999_999, 1_000_001, -1_000_001, TS_MAX - o, TS_MAX - o + 1, ORA_MAX - o, ORA_MAX - o + 1, TS_MIN - o, TS_MIN - o - 1] {
            st.eval(&C::ab(K::OraDt, o, i), check);
        }
    }
    // differences
    st.stratum("pool: differences", true);
    let sub: Vec<i64> = oras.iter().step_by((oras.len() / ctx.tier.pick(10, 250, 700)).max(1)).copied().collect();
    for &a in &sub {
        for &b in &sub {
            st.eval(&C::ab(K::Diff, a, b), check);
        }
        for s in [1i64, 86_400, (1 << 31) - 1, 1 << 31, (1 << 31) + 86_400, 3_000_000_000, 1 << 32, 68 * 366 * 86_400, 100 * 366 * 86_400] {
            for b in [a + s * 1_000_000, a - s * 1_000_000] {
                if (TS_MIN..=ORA_MAX).contains(&b) {
                    st.eval(&C::ab(K::Diff, a, b), check);
                }
            }
        }
    }
    let dpool = date_pool();
    for &a in &dpool {
        for &b in dpool.iter().step_by(3) {
            st.eval(&C::ab(K::Diff, a as i64 * DAY_US, b as i64 * DAY_US), check);
        }
    }
    // comparisons
    st.stratum("pool: mixed comparisons", true);
    let tsp = ts_pool();
    let tsp_s: Vec<i64> = tsp.iter().step_by((tsp.len() / ctx.tier.pick(30, 700, 2000)).max(1)).copied().collect();
    for &a in &tsp_s {
        let n = a.div_euclid(DAY_US);
        for b in [n * DAY_US, (n + 1) * DAY_US, (n - 1) * DAY_US, a.div_euclid(1_000_000) * 1_000_000, a.div_euclid(1_000_000) * 1_000_000 + 1_000_000, a] {
            if (TS_MIN..=TS_MAX).contains(&b) {
                st.eval(&C::ab(K::Cmp, a, b), check);
            }
        }
        for &d in dpool.iter().step_by(7) {
            st.eval(&C::ab(K::Cmp, a, d as i64 * DAY_US), check);
        }
    }
    // pool dates x bit-structured times: comparisons against the same / neighbouring day and second; OracleDate vs Timestamp ops
    let bts = bit_times();
    let (bts_ref, dpool_ref) = (&bts, &dpool);
    let bstep = ctx.tier.pick(997, 3, 1);
    ctx.par(st, "pool dates x bit-structured times: comparisons and shared ops", true, 0, (dpool.len() * bts.len()) as i64 / bstep, |st, i, _| {
        let i = (i * bstep) as usize;
        let day = dpool_ref[i / bts_ref.len()] as i64;
        let t = bts_ref[i % bts_ref.len()];
        let a = day * DAY_US + t;
        for b in [day * DAY_US, (day + 1) * DAY_US, a - a.rem_euclid(1_000_000), a - a.rem_euclid(1_000_000) + 1_000_000] {
            if (TS_MIN..=TS_MAX).contains(&b) {
                st.eval(&C::ab(K::Cmp, a, b), check);
            }
        }
        if t % 1_000_000 == 0 && a <= ORA_MAX {
            st.eval(&C::ab(K::OraVsTs, a, 0), check);
        }
    });
    let ystep = ctx.tier.pick(1999, 31, 1);
    ctx.par(st, "history: shared operations on A then on A+delta, delta -70..=70, A around every month end", true, 0, (9999 + ystep - 1) / ystep, |st, i, _| {
        let y = 1 + i * ystep;
        for a in crate::pools::month_end_days(y) {
            for delta in -70i64..=70 {
                let b = a + delta;
                if (MIN_DAY as i64..=MAX_DAY as i64).contains(&b) && (delta.abs() >= 27 || (a + delta) % 5 == 0) {
                    st.eval_hist(mix(a as u64, b as u64), vec![C::ab(K::DateVsTs, a, 0), C::ab(K::DateVsTs, b, 0)], check);
                }
            }
        }
    });
    cold_threads(st, "history: first call on a fresh thread (sentinel-like operands: -1, 0, 1 ...)", {
        let mut v = vec![];
        for b in [-1i64, 0, 1, -2, 2, 999_999, -999_999, 1_000_000, -1_000_000, i32::MAX as i64, i32::MIN as i64] {
            v.push(C::ab(K::DateDt, 0, b));
            v.push(C::ab(K::DateDt, 10_957, b));
            v.push(C::ab(K::OraDt, 0, b));
            v.push(C::ab(K::OraDt, 946_684_800_000_000, b));
        }
        v
    }, check);
    let n = ctx.tier.pick(1_000, 2_000_000, ctx.big(30_000_000, 300_000_000));
    ctx.par(st, "random: pairs for comparisons / differences / interval arithmetic", false, 0, n, |st, _, rng| {
        let a = rng.range_i64(TS_MIN, TS_MAX);
        let day = a.div_euclid(DAY_US);
        let c = match rng.below(8) {
            0 => C::ab(K::Cmp, a, (day + rng.range_i64(-1, 1)).clamp(MIN_DAY as i64, MAX_DAY as i64) * DAY_US),
            1 => C::ab(K::Cmp, a, (a.div_euclid(1_000_000) + rng.range_i64(-1, 1)).clamp(TS_MIN / 1_000_000, ORA_MAX / 1_000_000) * 1_000_000),
            2 => C::ab(K::Cmp, (a.div_euclid(1_000_000) * 1_000_000).min(ORA_MAX), (day + rng.range_i64(-1, 1)).clamp(MIN_DAY as i64, MAX_DAY as i64) * DAY_US),
            3 => C::ab(K::Cmp, a, rng.range_i64(MIN_DAY as i64, MAX_DAY as i64) * DAY_US),
            4 => C::ab(K::Diff, (a.div_euclid(1_000_000) * 1_000_000).min(ORA_MAX), rng.range_i64(TS_MIN / 1_000_000, ORA_MAX / 1_000_000) * 1_000_000),
            5 => C::ab(K::Diff, day * DAY_US, rng.range_i64(MIN_DAY as i64, MAX_DAY as i64) * DAY_US),
            6 => C::ab(K::OraDt, (a.div_euclid(1_000_000) * 1_000_000).min(ORA_MAX), rng.range_i64(-400 * DAY_US, 400 * DAY_US)),
            _ => C::ab(K::DateDt, day, rng.range_i64(TS_MIN - TS_MAX, TS_MAX - TS_MIN)),
        };
        { let (an, td, ks) = crate::primers::g_context(c.a, c.b); crate::primers::eval_sched(st, rng, c.hash(c.k as u64 + 70), &c, &an, td, &ks, check); }
    });
}

pub fn replay(v: &Value, st: &mut Stats) -> bool {
    match K::from_name(&jstr(v, "kind")) {
        Some(k) => {
            st.eval(&C { k, a: ji64(v, "a"), b: ji64(v, "b"), c: ji64(v, "c"), f: jf64(v, "f") }, check);
            true
        }
        None => false,
    }
}
