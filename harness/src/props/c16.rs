//! C16 - the Oracle-style date always holds whole seconds, flooring sub-second input.
use crate::cal::cal;
use crate::core::*;
use crate::f64x::{abs_product, decompose};
use crate::kinds;
use crate::pools::*;
use crate::props::c09;
use serde_json::Value;
use sqldatetime::{Date, IntervalDT, IntervalYM, OracleDate, Time, Timestamp};

kinds!(K { New = "OracleDate::new", FromTs = "OracleDate::from(Timestamp)", TryUsecs = "OracleDate::try_from_usecs", AddDt = "OracleDate::add_interval_dt", SubDt = "OracleDate::sub_interval_dt",
           AddYm = "OracleDate::add_interval_ym", SubYm = "OracleDate::sub_interval_ym", AddDays = "OracleDate::add_days", SubDays = "OracleDate::sub_days",
           TsAddDays = "Timestamp::oracle_add_days", TsSubDays = "Timestamp::oracle_sub_days", SubDate = "OracleDate::sub_date", Conv = "OracleDate conversions",
           Shape = "OracleDate trunc/round/last_day_of_month results" });
pub type C = G<K>;
impl Case for C {
    fn to_json(&self) -> Value {
        g_json(self.k.name(), self.a, self.b, self.c, self.f)
    }
}
const SEC: i64 = 1_000_000;
fn floor_sec(u: i64) -> i64 {
    u.div_euclid(SEC) * SEC
}
fn ora(u: i64) -> OracleDate {
    OracleDate::try_from_usecs(u).expect("oracle date operand")
}

pub fn check(st: &mut Stats, c: &C) {
    let name = c.k.name();
    match c.k {
        K::Shape => {
            // "every Oracle-style date obtained from ... truncation or rounding has a zero sub-second part and lies [in range]";
            // the last day of the month keeps the time of day
            use crate::trmodel::{lib_round_ora, lib_trunc_ora, UNITS};
            let o = ora(c.a);
            let whole = |st: &mut Stats, what: &str, v: i64| {
                if v.rem_euclid(SEC) != 0 || !(TS_MIN..=ORA_MAX).contains(&v) {
                    st.fail(format!("C16/{}/result-not-a-whole-second-in-range", what), format!("OracleDate {} -> {}", c.a, v));
                }
            };
            for u in UNITS {
                st.op(Op::O_trunc);
                if let Ok(r) = lib_trunc_ora(u, o) {
                    st.obs(Op::O_trunc, &r);
                    whole(st, "trunc", r.usecs());
                    if r.usecs() > c.a {
                        st.fail("C16/trunc/moves-forward", format!("OracleDate {} trunc_{} -> {}", c.a, u.name(), r.usecs()));
                    }
                }
                st.op(Op::O_round);
                if let Ok(r) = lib_round_ora(u, o) {
                    st.obs(Op::O_round, &r);
                    whole(st, "round", r.usecs());
                }
            }
            st.op(Op::O_last_day_of_month);
            let r = o.last_day_of_month();
            st.obs(Op::O_last_day_of_month, &r);
            whole(st, "last_day_of_month", r.usecs());
            let (n, tod) = (c.a.div_euclid(DAY_US), c.a.rem_euclid(DAY_US));
            let (y, m, d) = cal().of(n as i32);
            let exp = (n + (crate::cal::dim(y as i64, m) - d) as i64) * DAY_US + tod;
            if r.usecs() != exp {
                st.fail("C16/last_day_of_month/wrong", format!("OracleDate {} ({:?}) -> {} expected {}", c.a, (y, m, d), r.usecs(), exp));
            }
        }
        K::New => {
            let (n, tod) = (c.a as i32, c.b);
            st.op(Op::O_new);
            let o = OracleDate::new(Date::try_from_days(n).expect("date"), Time::try_from_usecs(tod).expect("time"));
            st.obs(Op::O_new, &o);
            let exp = n as i64 * DAY_US + floor_sec(tod);
            st.op(Op::O_usecs);
            if o.usecs() != exp {
                st.fail("C16/new/not-floored-to-second", format!("new(day {}, tod {}) = {} expected {}", n, tod, o.usecs(), exp));
            }
            st.op(Op::O_extract);
            let (d, t) = o.extract();
            st.obs(Op::O_extract, &d);
            st.obs(Op::O_extract, &t);
            if d.days() != n || t.usecs() != floor_sec(tod) {
                st.fail("C16/extract/wrong", format!("new(day {}, tod {}).extract() = ({}, {})", n, tod, d.days(), t.usecs()));
            }
            // accessors report the same fields (year..second), second has no fraction
            use sqldatetime::DateTime;
            let (y, m, dd) = cal().of(n);
            let s = floor_sec(tod) / SEC;
            st.op(Op::O_accessors);
            if (o.year(), o.month(), o.day(), o.hour(), o.minute(), o.second(), o.date().map(|x| x.days())) != (Some(y), Some(m as i32), Some(dd as i32), Some((s / 3600) as i32), Some((s / 60 % 60) as i32), Some((s % 60) as f64), Some(n)) {
                st.fail("C16/accessors/wrong", format!("new(day {}, tod {})", n, tod));
            }
            st.op(Op::T_from_ora);
            let t2: Time = o.into();
            st.obs(Op::T_from_ora, &t2);
            if t2.usecs() != floor_sec(tod) {
                st.fail("C16/time-from-oracle-date", format!("new(day {}, tod {}) -> time {}", n, tod, t2.usecs()));
            }
        }
        K::FromTs => {
            let u = c.a;
            st.op(Op::O_from_ts);
            let o = OracleDate::from(Timestamp::try_from_usecs(u).expect("timestamp"));
            st.obs(Op::O_from_ts, &o);
            if o.usecs() != floor_sec(u) {
                st.fail(if u < 0 { "C16/from-timestamp/not-floored/before-epoch" } else { "C16/from-timestamp/not-floored" }, format!("from({}) = {} expected {}", u, o.usecs(), floor_sec(u)));
            }
            st.op(Op::TS_from_ora);
            let back: Timestamp = o.into();
            st.obs(Op::TS_from_ora, &back);
            if back.usecs() != o.usecs() {
                st.fail("C16/timestamp-from-oracle-date", format!("{}", u));
            }
        }
        K::TryUsecs => {
            let u = c.a;
            let valid = (TS_MIN..=ORA_MAX).contains(&u) && u.rem_euclid(SEC) == 0;
            st.op(Op::O_try_from_usecs);
            let r = OracleDate::try_from_usecs(u);
            st.obs_r(Op::O_try_from_usecs, &r);
            match r {
                Ok(o) if !valid => st.fail("C16/try_from_usecs/accepts-invalid", format!("{} -> {}", u, o.usecs())),
                Ok(o) if o.usecs() != u => st.fail("C16/try_from_usecs/wrong-value", format!("{} -> {}", u, o.usecs())),
                Err(e) if valid => st.fail("C16/try_from_usecs/rejects-valid", format!("{} -> {:?}", u, e)),
                _ => {}
            }
        }
        K::AddDt | K::SubDt => {
            let add = c.k == K::AddDt;
            let i = IntervalDT::try_from_usecs(c.b).expect("interval");
            let o = ora(c.a);
            st.op(if add { Op::O_add_interval_dt } else { Op::O_sub_interval_dt });
            let r = if add { o.add_interval_dt(i) } else { o.sub_interval_dt(i) };
            st.obs_r(if add { Op::O_add_interval_dt } else { Op::O_sub_interval_dt }, &r);
            let exact = if add { c.a as i128 + c.b as i128 } else { c.a as i128 - c.b as i128 };
            let ok = exact >= TS_MIN as i128 && exact <= TS_MAX as i128;
            match r {
                Ok(v) => {
                    if !ok {
                        st.fail(format!("C16/{}/ok-although-timestamp-result-out-of-range", name), format!("{} {} -> {}", c.a, c.b, v.usecs()));
                    } else if v.usecs() != floor_sec(exact as i64) {
                        st.fail(format!("C16/{}/not-the-floored-timestamp-result", name), format!("{} {} -> {} expected {}", c.a, c.b, v.usecs(), floor_sec(exact as i64)));
                    }
                }
                Err(e) => {
                    if ok {
                        st.fail(format!("C16/{}/err-although-in-range", name), format!("{} {} -> {:?}", c.a, c.b, e));
                    }
                }
            }
        }
        K::AddYm | K::SubYm => {
            // equals the timestamp result (whole seconds are preserved by month arithmetic): reuse the C09 model
            let cc = c09::C::ab(c09::K::OraYm, c.a, c.b);
            c09::check(st, &cc);
        }
        K::AddDays | K::SubDays | K::TsAddDays | K::TsSubDays => {
            let f = c.f;
            let (base, r) = match c.k {
                K::AddDays => {
                    st.op(Op::O_add_days);
                    (c.a, ora(c.a).add_days(f))
                }
                K::SubDays => {
                    st.op(Op::O_sub_days);
                    (c.a, ora(c.a).sub_days(f))
                }
                K::TsAddDays => {
                    st.op(Op::TS_oracle_add_days);
                    (floor_sec(c.a), Timestamp::try_from_usecs(c.a).expect("ts").oracle_add_days(f))
                }
                _ => {
                    st.op(Op::TS_oracle_sub_days);
                    (floor_sec(c.a), Timestamp::try_from_usecs(c.a).expect("ts").oracle_sub_days(f))
                }
            };
            st.obs_r(Op::O_add_days, &r);
            let show = || format!("{}({}, {:e} [{:#018x}])", name, c.a, f, f.to_bits());
            if !f.is_finite() {
                if r.is_ok() {
                    st.fail(format!("C16/{}/ok-for-non-finite-offset", name), show());
                }
                return;
            }
            let eff = if matches!(c.k, K::AddDays | K::TsAddDays) { f } else { -f };
            let q = abs_product(DAY_US as u128, eff); // |offset| in microseconds, exact
            let neg = decompose(eff).0;
            match r {
                Ok(v) => {
                    let delta = v.usecs() as i128 - base as i128;
                    if delta != 0 && (delta < 0) != neg && delta.unsigned_abs() > 500_001 {
                        st.fail(format!("C16/{}/moves-the-wrong-way", name), format!("{} moved by {}", show(), delta));
                        return;
                    }
                    // nearest second of base + offset: |delta - offset| <= 0.5 s (+0.5 us for the microsecond rounding
                    // of the offset, + double-precision slack). In half-microsecond units: |2*delta -+ 2q| <= 1000001 + 2q*2^-52
                    let signed_ok = if (delta < 0) == neg || delta == 0 {
                        q.doubled().within(2 * delta.unsigned_abs(), 1_000_001, 52)
                    } else {
                        // result moved (by less than a second) against the offset's direction: |delta| + q <= 0.5 s + slack
                        q.doubled().within(0, 1_000_001u128.saturating_sub(2 * delta.unsigned_abs()), 52)
                    };
                    if !signed_ok {
                        st.fail("C16/add_days/not-nearest-second", format!("{} moved by {} us, exact offset {}{:e} us", show(), delta, if neg { "-" } else { "" }, q.approx()));
                    }
                }
                Err(_) => {
                    // legitimate only if the rounded result can fall outside 0001-01-01 00:00:00 .. 9999-12-31 23:59:59
                    let room: i128 = if neg { base as i128 - TS_MIN as i128 } else { ORA_MAX as i128 - base as i128 };
                    // surely inside when offset*(1+2^-52) + 0.5 s + 1 us < room
                    let need = room - 500_002;
                    if need > 0 && !q.int_le_scaled_up(need as u128, 52) {
                        st.fail(format!("C16/{}/err-although-result-in-range", name), format!("{}: offset {:e} us, room {}", show(), q.approx(), room));
                    }
                }
            }
        }
        K::SubDate => {
            let (a, b) = (ora(c.a), ora(c.b));
            st.op(Op::O_sub_date);
            let r = a.sub_date(b);
            let ds = (c.a - c.b) / SEC; // exact whole seconds, |ds| < 2^53
            let err = (r * 86_400.0 - ds as f64).abs();
            // 4 ulps (the check itself multiplies by 86400 once more); no absolute slack: a zero distance must give 0
            let tol = (ds as f64).abs() * (2f64).powi(-50);
            if !(err <= tol) {
                st.fail("C16/sub_date/not-the-distance-in-days", format!("{} - {} = {} days, exact {} s", c.a, c.b, r, ds));
            } else if (c.a - c.b).abs() < (1i64 << 53) && r != (c.a - c.b) as f64 / DAY_US as f64 {
                // below 2^53 us the microsecond distance is an exact double, so "the exact distance in days" is one
                // correctly rounded division away: anything else (a result assembled from days + fraction, say) is not it
                st.fail("C16/sub_date/not-the-correctly-rounded-distance", format!("{} - {} = {:e} days, the exact distance rounds to {:e}", c.a, c.b, r, (c.a - c.b) as f64 / DAY_US as f64));
            } else if ds % 86_400 == 0 && r != (ds / 86_400) as f64 {
                st.fail("C16/sub_date/whole-days-not-exact", format!("{} - {} = {} days, exact {}", c.a, c.b, r, ds / 86_400));
            }
            if b.sub_date(a) != -r {
                st.fail("C16/sub_date/antisymmetry", format!("{} {}", c.a, c.b));
            }
        }
        K::Conv => {}
    }
}

pub fn run(ctx: &Ctx, st: &mut Stats) {
    cal();
    let times: Vec<i64> = time_pool().iter().map(|t| floor_sec(*t)).collect::<std::collections::BTreeSet<_>>().into_iter().collect();
    let subs = [0i64, 1, 499_999, 500_000, 999_999];
    let stride = ctx.tier.pick(20_011, ctx.q(3, 1), 1);
    let nt = times.len() as i64;
    let times_ref = &times;
    ctx.par(st, "dates x critical-times x sub-second {0,1,499999,500000,999999}", true, 0, (N_DAYS as i64 / stride) * nt, |st, i, _| {
        let n = MIN_DAY as i64 + (i / nt) * stride;
        let t = floor_sec(times_ref[(i % nt) as usize]);
        for &s in &subs {
            st.eval(&C::ab(K::New, n, t + s), check);
            st.eval(&C::ab(K::FromTs, n * DAY_US + t + s, 0), check);
        }
        st.eval(&C::ab(K::TryUsecs, n * DAY_US + t, 0), check);
        st.eval(&C::ab(K::TryUsecs, n * DAY_US + t + 1, 0), check);
        st.eval(&C::ab(K::TryUsecs, n * DAY_US + t + 999_999, 0), check);
    });
    if stride == 1 {
        st.mark_exhaustive("dates x critical-times x sub-second {0,1,499999,500000,999999}", "all dates x critical times x 5 sub-second parts for new/from(Timestamp)/try_from_usecs");
    }
    // truncation, rounding and last day of month: results are whole seconds in range (all units), many threads at once
    let sstride = ctx.tier.pick(20_011, ctx.q(11, 3), 1);
    ctx.par(st, "dates x whole-second times: results of all 24 trunc/round units and last_day_of_month", true, 0, N_DAYS as i64 / sstride, |st, i, _| {
        let n = MIN_DAY as i64 + i * sstride;
        let t = times_ref[(i % nt) as usize];
        st.eval(&C::ab(K::Shape, n * DAY_US + t, 0), check);
        if i % 16 == 0 {
            st.eval(&C::ab(K::Shape, n * DAY_US + 86_399 * SEC, 0), check);
        }
    });
    let bts = bit_times();
    let dpool = date_pool();
    let (bts_ref, dpool_ref) = (&bts, &dpool);
    let bstep = ctx.tier.pick(997, 3, 1);
    ctx.par(st, "pool dates x bit-structured times: new / from(Timestamp)", true, 0, (dpool.len() * bts.len()) as i64 / bstep, |st, i, _| {
        let i = i * bstep;
        let n = dpool_ref[(i as usize) / bts_ref.len()] as i64;
        let t = bts_ref[(i as usize) % bts_ref.len()];
        st.eval(&C::ab(K::New, n, t), check);
        st.eval(&C::ab(K::FromTs, n * DAY_US + t, 0), check);
    });
    st.stratum("try_from_usecs/boundaries", true);
    for u in [TS_MIN - SEC, TS_MIN - 1, TS_MIN, TS_MIN + 1, TS_MIN + SEC, ORA_MAX - SEC, ORA_MAX - 1, ORA_MAX, ORA_MAX + 1, ORA_MAX + 999_999, ORA_MAX + SEC, TS_MAX, TS_MAX + 1, 0, 1, -1, -SEC, SEC, i64::MIN, i64::MAX, 1 << 53, -(1 << 53)] {
        st.eval(&C::ab(K::TryUsecs, u, 0), check);
    }
    // every op x pools
    let oras: Vec<i64> = ts_pool().iter().map(|u| floor_sec(*u)).filter(|u| (TS_MIN..=ORA_MAX).contains(u)).collect::<std::collections::BTreeSet<_>>().into_iter().collect();
    let oras: Vec<i64> = oras.iter().step_by((oras.len() / ctx.tier.pick(20, 600, 3000)).max(1)).copied().collect();
    let dts = dt_pool();
    let yms = ym_pool();
    let fs = f64_pool();
    st.stratum("pool: oracle-date x interval_dt / interval_ym / day-offset", true);
    for &o in &oras {
        let mut is = dts.clone();
        for t in [TS_MIN, TS_MAX, ORA_MAX, 0] {
            for e in [-SEC, -1, 0, 1, SEC] {
                is.push(t - o + e);
                is.push(o - t + e);
            }
        }
        is.extend([499_999, 500_000, 500_001, 999_999, -499_999, -500_000, -500_001, -999_999, 1_499_999, 1_500_000, -1_500_000]);
        for &i in &is {
            if i.abs() <= DT_LIM {
                st.eval(&C::ab(K::AddDt, o, i), check);
                st.eval(&C::ab(K::SubDt, o, i), check);
            }
        }
        for &k in &yms {
            st.eval(&C::ab(K::AddYm, o, k as i64), check);
        }
        for &f in &fs {
            st.eval(&C::af(K::AddDays, o, f), check);
            st.eval(&C::af(K::SubDays, o, f), check);
            // the same offsets through the Timestamp-side entry points, from the whole second and from inside it
            for sub in [0i64, 1, 500_000, 999_999] {
                if o + sub <= TS_MAX {
                    st.eval(&C::af(K::TsAddDays, o + sub, f), check);
                    st.eval(&C::af(K::TsSubDays, o + sub, f), check);
                }
            }
        }
        // offsets into the last / first second of the range
        for e in [-1_500_000i64, -1_000_000, -750_000, -600_000, -500_001, -500_000, -499_999, -250_000, 0, 250_000, 499_999, 500_000, 500_001, 600_000, 750_000, 999_999, 1_000_000, 1_500_000] {
            for t in [ORA_MAX, TS_MIN] {
                let f = (t - o + e) as f64 / DAY_US as f64;
                st.eval(&C::af(K::AddDays, o, f), check);
                st.eval(&C::af(K::SubDays, o, -f), check);
            }
        }
    }
    // differences of a few days with arbitrary times of day (where a double has bits to spare and every bit counts)
    let nsd = ctx.tier.pick(300, 1_000_000, 10_000_000);
    ctx.par(st, "differences within +-60 days, arbitrary seconds", false, 0, nsd, |st, _, rng| {
        let a = rng.range_i64(TS_MIN / SEC, ORA_MAX / SEC);
        let b = (a + rng.range_i64(-60 * 86_400, 60 * 86_400)).clamp(TS_MIN / SEC, ORA_MAX / SEC);
        let c = C::ab(K::SubDate, a * SEC, b * SEC);
        st.eval_h(c.hash(91), &c, check);
    });
    st.stratum("pool: oracle-date differences", true);
    let sub: Vec<i64> = oras.iter().step_by((oras.len() / ctx.tier.pick(8, 200, 500)).max(1)).copied().collect();
    for &a in &sub {
        for &b in &sub {
            st.eval(&C::ab(K::SubDate, a, b), check);
        }
        for d in [1i64, 86_399, 86_400, 86_401, 31 * 86_400, 365 * 86_400, (1 << 31) - 1, 1 << 31, (1 << 31) + 1, 1 << 32, 3_000_000_000, 68 * 366 * 86_400] {
            for b in [a + d * SEC, a - d * SEC] {
                if (TS_MIN..=ORA_MAX).contains(&b) {
                    st.eval(&C::ab(K::SubDate, a, b), check);
                }
            }
        }
    }
    // fractional day offsets clustered at half-second boundaries, bases over the whole range
    let n = ctx.tier.pick(2_000, 3_000_000, ctx.big(60_000_000, 400_000_000));
    ctx.par(st, "random: base x day-offset clustered at k s + 0.5 s +- 20 us", false, 0, n, |st, _, rng| {
        let base_s = rng.range_i64(TS_MIN / SEC, ORA_MAX / SEC);
        let off_us = match rng.below(7) {
            // half-second neighbourhoods at every magnitude (hours .. the whole range)
            5 | 6 => {
                let (e1, e2) = (12 + rng.below(27), 12 + rng.below(27));
                rng.range_i64(-(1i64 << e1), 1i64 << e2) * SEC + 500_000 + rng.range_i64(-20, 20)
            }
            0 => rng.range_i64(-3, 3) * SEC + 500_000 + rng.range_i64(-20, 20),
            1 => rng.range_i64(-100_000, 100_000) * SEC + 500_000 + rng.range_i64(-20, 20),
            2 => rng.range_i64(-5 * DAY_US, 5 * DAY_US),
            3 => rng.range_i64(-40_000, 40_000) * DAY_US + rng.range_i64(-2, 2) * 500_000,
            _ => rng.range_i64(-2_000_000, 2_000_000),
        };
        let f = off_us as f64 / DAY_US as f64;
        let k = *rng.pick(&[K::AddDays, K::SubDays, K::TsAddDays, K::TsSubDays]);
        let a = if matches!(k, K::TsAddDays | K::TsSubDays) { (base_s * SEC + rng.range_i64(0, 999_999)).min(TS_MAX) } else { base_s * SEC };
        let c = C::af(k, a, f);
        { let (an, td, ks) = crate::primers::g_context(c.a, c.b); crate::primers::eval_sched(st, rng, c.hash(k as u64), &c, &an, td, &ks, check); }
    });
    cold_threads(st, "history: first call on a fresh thread (sentinel-like operands: -1, 0, 1 ...)", {
        let mut v = vec![];
        for o in [0i64, 946_684_800_000_000, -SEC, ORA_MAX, TS_MIN] {
            for b in [-1i64, 0, 1, -2, 2, 999_999, -999_999, 1_000_000, -1_000_000, i32::MAX as i64, i32::MIN as i64] {
                v.push(C::ab(K::AddDt, o, b));
                v.push(C::ab(K::SubDt, o, b));
                if b.abs() <= 1_000_000 {
                    v.push(C::ab(K::AddYm, o, b));
                    v.push(C::ab(K::SubYm, o, b));
                }
            }
            for f in [-1.0f64, 0.0, 1.0, f64::NAN, -0.0, 0.5] {
                v.push(C::af(K::AddDays, o, f));
                v.push(C::af(K::TsSubDays, o, f));
            }
        }
        v
    }, check);
    // history: the same call twice in a row where the sum lands just past either end of the range (the first answer,
    // an error, must also be the second)
    let nrep = ctx.tier.pick(100, 100_000, 1_000_000);
    ctx.par(st, "history: a call whose result lies just outside the range, repeated", false, 0, nrep, |st, i, rng| {
        let o = if rng.chance(1, 2) { ORA_MAX - rng.range_i64(0, 400 * 86_400) * SEC } else { rng.range_i64(TS_MIN / SEC, ORA_MAX / SEC) * SEC };
        let edge = if i % 4 == 3 { TS_MIN } else { ORA_MAX };
        let e = *rng.pick(&[500_000i64, 500_001, 600_000, 700_000, 999_999, 1_000_000, 1_500_000, -500_000, -600_000, 499_999]);
        let e = if edge == TS_MIN { -e } else { e };
        let f = (edge - o + e) as f64 / DAY_US as f64;
        let k = *rng.pick(&[K::AddDays, K::TsAddDays]);
        let c = C::af(k, o, f);
        let c2 = C::af(if k == K::AddDays { K::SubDays } else { K::TsSubDays }, o, -f);
        st.eval_hist(mix(c.hash(k as u64 + 90), i as u64), vec![c, c, c2, c2, c], check);
    });
    let n2 = ctx.tier.pick(500, 1_000_000, ctx.big(20_000_000, 200_000_000));
    ctx.par(st, "random: oracle-date x interval / difference / conversion", false, 0, n2, |st, _, rng| {
        let o = rng.range_i64(TS_MIN / SEC, ORA_MAX / SEC) * SEC;
        let c = match rng.below(6) {
            0 => C::ab(K::AddDt, o, rng.range_i64(TS_MIN - TS_MAX, TS_MAX - TS_MIN)),
            1 => C::ab(K::SubDt, o, rng.range_i64(-3 * DAY_US, 3 * DAY_US)),
            2 => C::ab(K::AddYm, o, rng.range_i64(-130_000, 130_000)),
            3 => C::ab(K::SubDate, o, rng.range_i64(TS_MIN / SEC, ORA_MAX / SEC) * SEC),
            4 => C::ab(K::FromTs, rng.range_i64(TS_MIN, TS_MAX), 0),
            _ => C::ab(K::TryUsecs, rng.range_i64(TS_MIN - DAY_US, TS_MAX + DAY_US), 0),
        };
        { let (an, td, ks) = crate::primers::g_context(c.a, c.b); crate::primers::eval_sched(st, rng, c.hash(c.k as u64 + 50), &c, &an, td, &ks, check); }
    });
}

pub fn replay(v: &Value, st: &mut Stats) -> bool {
    match K::from_name(&jstr(v, "kind")) {
        Some(k) => {
            st.eval(&C { k, a: ji64(v, "a"), b: ji64(v, "b"), c: ji64(v, "c"), f: jf64(v, "f") }, check);
            true
        }
        None => false,
    }
}
