//! R-ARITH for truncation and rounding: per-unit boundary predicates written from the property
//! statements (C10/C11), independent of the library's tables.
use crate::cal::{cal, days_from_civil, iso_year_start, weekday_mon0, weekday_sun0};
use crate::core::{DAY_US, MAX_DAY, MIN_DAY};
use sqldatetime::{Date, Error, OracleDate, Round, Timestamp, Trunc};

#[derive(Clone, Copy, Debug, PartialEq, Eq, Hash)]
pub enum U {
    Century,
    Year,
    IsoYear,
    Quarter,
    Month,
    Week,
    IsoWeek,
    MonthWeek,
    Day,
    SunWeek,
    Hour,
    Minute,
}
pub const UNITS: [U; 12] = [U::Century, U::Year, U::IsoYear, U::Quarter, U::Month, U::Week, U::IsoWeek, U::MonthWeek, U::Day, U::SunWeek, U::Hour, U::Minute];
impl U {
    pub fn name(self) -> &'static str {
        match self {
            U::Century => "century",
            U::Year => "year",
            U::IsoYear => "iso_year",
            U::Quarter => "quarter",
            U::Month => "month",
            U::Week => "week",
            U::IsoWeek => "iso_week",
            U::MonthWeek => "month_start_week",
            U::Day => "day",
            U::SunWeek => "sunday_start_week",
            U::Hour => "hour",
            U::Minute => "minute",
        }
    }
    pub fn from_name(s: &str) -> Option<U> {
        UNITS.iter().copied().find(|u| u.name() == s)
    }
    pub fn idx(self) -> usize {
        UNITS.iter().position(|u| *u == self).unwrap()
    }
    pub fn sub_day(self) -> bool {
        matches!(self, U::Hour | U::Minute)
    }
}

const H: i64 = 3_600_000_000;
const MI: i64 = 60_000_000;

/// the greatest unit boundary not after (day n, time-of-day tod), in microseconds since the epoch
/// (may lie before 0001-01-01; the caller decides what that means)
pub fn trunc_model(u: U, n: i64, tod: i64) -> i128 {
    let day = trunc_day_model(u, n);
    let t = match u {
        U::Hour => tod - tod % H,
        U::Minute => tod - tod % MI,
        _ => 0,
    };
    day as i128 * DAY_US as i128 + t as i128
}

/// day number of the boundary (for Hour/Minute: the day itself)
pub fn trunc_day_model(u: U, n: i64) -> i64 {
    let (y, m, d) = cal().of(n as i32);
    let (y, m, d) = (y as i64, m as i64, d as i64);
    match u {
        U::Century => days_from_civil((y - 1) / 100 * 100 + 1, 1, 1),
        U::Year => days_from_civil(y, 1, 1),
        U::IsoYear => {
            let mut best = iso_year_start(y - 1);
            for yy in [y, y + 1] {
                let s = iso_year_start(yy);
                if s <= n {
                    best = s;
                }
            }
            best
        }
        U::Quarter => days_from_civil(y, (m - 1) / 3 * 3 + 1, 1),
        U::Month => n - (d - 1),
        U::Week => {
            let doy = n - days_from_civil(y, 1, 1); // 0-based
            n - doy % 7
        }
        U::IsoWeek => n - weekday_mon0(n) as i64,
        U::MonthWeek => n - (d - 1) % 7,
        U::Day | U::Hour | U::Minute => n,
        U::SunWeek => n - weekday_sun0(n) as i64,
    }
}

/// the first boundary strictly after the boundary `b` (a day number that is itself a boundary)
pub fn next_day_boundary(u: U, b: i64) -> i64 {
    let (y, m, _) = crate::cal::civil_from_days(b);
    let m = m as i64;
    match u {
        U::Century => days_from_civil(y + 100, 1, 1),
        U::Year => days_from_civil(y + 1, 1, 1),
        U::IsoYear => {
            // b is the start of some ISO year Y in {y, y+1}
            let mut nx = i64::MAX;
            for yy in [y, y + 1, y + 2] {
                let s = iso_year_start(yy);
                if s > b && s < nx {
                    nx = s;
                }
            }
            nx
        }
        U::Quarter => {
            if m + 3 > 12 {
                days_from_civil(y + 1, 1, 1)
            } else {
                days_from_civil(y, m + 3, 1)
            }
        }
        U::Month => {
            if m == 12 {
                days_from_civil(y + 1, 1, 1)
            } else {
                days_from_civil(y, m + 1, 1)
            }
        }
        U::Week => (b + 7).min(days_from_civil(y + 1, 1, 1)),
        U::IsoWeek | U::SunWeek => b + 7,
        U::MonthWeek => (b + 7).min(if m == 12 { days_from_civil(y + 1, 1, 1) } else { days_from_civil(y, m + 1, 1) }),
        U::Day | U::Hour | U::Minute => b + 1,
    }
}

#[derive(Clone, Copy, Debug, PartialEq, Eq)]
pub enum Want {
    /// exactly this boundary (microseconds); out of the type's range => an error is required
    Exactly(i128),
    /// the statement gives no midpoint here (shortened last week): either neighbour is acceptable
    Either(i128, i128),
}

#[derive(Clone, Copy, Debug, PartialEq, Eq, Hash)]
pub enum TyK {
    Date,
    Ts,
    Ora,
}

/// expected rounding result of (day n, tod) per the documented midpoints.
pub fn round_model(u: U, ty: TyK, n: i64, tod: i64) -> Want {
    let (y, m, d) = cal().of(n as i32);
    let (y, m, d) = (y as i64, m as i64, d as i64);
    let x = n as i128 * DAY_US as i128 + tod as i128;
    let lo = trunc_model(u, n, tod);
    if x == lo {
        return Want::Exactly(lo); // a value on a boundary is returned unchanged
    }
    let tday = trunc_day_model(u, n);
    let hi: i128 = match u {
        U::Hour => lo + H as i128,
        U::Minute => lo + MI as i128,
        _ => next_day_boundary(u, tday) as i128 * DAY_US as i128,
    };
    let up = match u {
        U::Century => {
            let yoc = (y - 1) % 100 + 1; // 1..=100
            yoc >= 51
        }
        U::Year => m >= 7,
        U::IsoYear => {
            // documented calendar rule: July onward goes to the ISO year that follows the calendar year
            return if m >= 7 { Want::Exactly(iso_year_start(y + 1) as i128 * DAY_US as i128) } else { Want::Exactly(lo) };
        }
        U::Quarter => {
            let pos = (m - 1) % 3; // 0,1,2
            pos == 2 || (pos == 1 && d >= 16)
        }
        U::Month => d >= 16,
        U::Week | U::IsoWeek | U::MonthWeek | U::SunWeek => {
            let full = hi - lo == 7 * DAY_US as i128;
            if !full {
                return Want::Either(lo, hi);
            }
            match ty {
                TyK::Date => n - tday >= 4,                                   // the fifth day of the week onward
                _ => 2 * (x - lo) >= 7 * DAY_US as i128,                      // noon of the fourth day onward
            }
        }
        U::Day => tod >= 12 * H,
        U::Hour => tod % H >= 30 * MI,
        U::Minute => tod % MI >= 30_000_000,
    };
    Want::Exactly(if up { hi } else { lo })
}

// ---- the library side, by unit index
pub fn lib_trunc_date(u: U, d: Date) -> Result<Date, Error> {
    match u {
        U::Century => d.trunc_century(),
        U::Year => d.trunc_year(),
        U::IsoYear => d.trunc_iso_year(),
        U::Quarter => d.trunc_quarter(),
        U::Month => d.trunc_month(),
        U::Week => d.trunc_week(),
        U::IsoWeek => d.trunc_iso_week(),
        U::MonthWeek => d.trunc_month_start_week(),
        U::Day => d.trunc_day(),
        U::SunWeek => d.trunc_sunday_start_week(),
        U::Hour => d.trunc_hour(),
        U::Minute => d.trunc_minute(),
    }
}
pub fn lib_round_date(u: U, d: Date) -> Result<Date, Error> {
    match u {
        U::Century => d.round_century(),
        U::Year => d.round_year(),
        U::IsoYear => d.round_iso_year(),
        U::Quarter => d.round_quarter(),
        U::Month => d.round_month(),
        U::Week => d.round_week(),
        U::IsoWeek => d.round_iso_week(),
        U::MonthWeek => d.round_month_start_week(),
        U::Day => d.round_day(),
        U::SunWeek => d.round_sunday_start_week(),
        U::Hour => d.round_hour(),
        U::Minute => d.round_minute(),
    }
}
pub fn lib_trunc_ts(u: U, d: Timestamp) -> Result<Timestamp, Error> {
    match u {
        U::Century => d.trunc_century(),
        U::Year => d.trunc_year(),
        U::IsoYear => d.trunc_iso_year(),
        U::Quarter => d.trunc_quarter(),
        U::Month => d.trunc_month(),
        U::Week => d.trunc_week(),
        U::IsoWeek => d.trunc_iso_week(),
        U::MonthWeek => d.trunc_month_start_week(),
        U::Day => d.trunc_day(),
        U::SunWeek => d.trunc_sunday_start_week(),
        U::Hour => d.trunc_hour(),
        U::Minute => d.trunc_minute(),
    }
}
pub fn lib_round_ts(u: U, d: Timestamp) -> Result<Timestamp, Error> {
    match u {
        U::Century => d.round_century(),
        U::Year => d.round_year(),
        U::IsoYear => d.round_iso_year(),
        U::Quarter => d.round_quarter(),
        U::Month => d.round_month(),
        U::Week => d.round_week(),
        U::IsoWeek => d.round_iso_week(),
        U::MonthWeek => d.round_month_start_week(),
        U::Day => d.round_day(),
        U::SunWeek => d.round_sunday_start_week(),
        U::Hour => d.round_hour(),
        U::Minute => d.round_minute(),
    }
}
pub fn lib_trunc_ora(u: U, d: OracleDate) -> Result<OracleDate, Error> {
    match u {
        U::Century => d.trunc_century(),
        U::Year => d.trunc_year(),
        U::IsoYear => d.trunc_iso_year(),
        U::Quarter => d.trunc_quarter(),
        U::Month => d.trunc_month(),
        U::Week => d.trunc_week(),
        U::IsoWeek => d.trunc_iso_week(),
        U::MonthWeek => d.trunc_month_start_week(),
        U::Day => d.trunc_day(),
        U::SunWeek => d.trunc_sunday_start_week(),
        U::Hour => d.trunc_hour(),
        U::Minute => d.trunc_minute(),
    }
}
pub fn lib_round_ora(u: U, d: OracleDate) -> Result<OracleDate, Error> {
    match u {
        U::Century => d.round_century(),
        U::Year => d.round_year(),
        U::IsoYear => d.round_iso_year(),
        U::Quarter => d.round_quarter(),
        U::Month => d.round_month(),
        U::Week => d.round_week(),
        U::IsoWeek => d.round_iso_week(),
        U::MonthWeek => d.round_month_start_week(),
        U::Day => d.round_day(),
        U::SunWeek => d.round_sunday_start_week(),
        U::Hour => d.round_hour(),
        U::Minute => d.round_minute(),
    }
}

/// applies trunc (round = false) or round through the requested type; the input must be valid for the type.
/// Returns the result as microseconds.
pub fn lib_apply(round: bool, u: U, ty: TyK, n: i64, tod: i64) -> Result<i64, Error> {
    match ty {
        TyK::Date => {
            let d = Date::try_from_days(n as i32)?;
            let r = if round { lib_round_date(u, d) } else { lib_trunc_date(u, d) };
            r.map(|v| v.days() as i64 * DAY_US)
        }
        TyK::Ts => {
            let t = Timestamp::try_from_usecs(n * DAY_US + tod)?;
            let r = if round { lib_round_ts(u, t) } else { lib_trunc_ts(u, t) };
            r.map(|v| v.usecs())
        }
        TyK::Ora => {
            let t = OracleDate::try_from_usecs(n * DAY_US + tod)?;
            let r = if round { lib_round_ora(u, t) } else { lib_trunc_ora(u, t) };
            r.map(|v| v.usecs())
        }
    }
}

pub fn in_type_range(ty: TyK, us: i128) -> bool {
    let lo = MIN_DAY as i128 * DAY_US as i128;
    let hi = match ty {
        TyK::Date => MAX_DAY as i128 * DAY_US as i128,
        TyK::Ts => (MAX_DAY as i128 + 1) * DAY_US as i128 - 1,
        TyK::Ora => (MAX_DAY as i128 + 1) * DAY_US as i128 - 1_000_000,
    };
    us >= lo && us <= hi
}
