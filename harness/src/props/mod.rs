//! One driver (workload + oracle) per property.
use crate::core::{Ctx, Stats};
use serde_json::Value;

pub mod c01;
pub mod c02;
pub mod c03;
pub mod c04;
pub mod c05;
pub mod c06;
pub mod c07;
pub mod c08;
pub mod c09;
pub mod c10;
pub mod c12;
pub mod c13;
pub mod c14;
pub mod c15;
pub mod c16;
pub mod c17;
pub mod c18;
pub mod c19;

pub fn run(ctx: &Ctx, st: &mut Stats) -> bool {
    match ctx.prop.as_str() {
        // development aid (not a registered check): every driver in light mode, all findings kept
        "ALL" => c02::compose(ctx, st, &|_| true),
        "C02" => c02::run(ctx, st),
        "C03" => c03::run(ctx, st),
        _ => return run_one(ctx, st),
    }
    true
}

/// the self-contained drivers (everything except the composed C02 / C03)
pub fn run_one(ctx: &Ctx, st: &mut Stats) -> bool {
    match ctx.prop.as_str() {
        "C01" => c01::run(ctx, st),
        "C04" => c04::run(ctx, st),
        "C05" => c05::run(ctx, st),
        "C06" => c06::run(ctx, st),
        "C07" => c07::run(ctx, st),
        "C08" => c08::run(ctx, st),
        "C09" => c09::run(ctx, st),
        "C10" => c10::run(ctx, st, false),
        "C11" => c10::run(ctx, st, true),
        "C12" => c12::run(ctx, st),
        "C13" => c13::run(ctx, st),
        "C14" => c14::run(ctx, st),
        "C15" => c15::run(ctx, st),
        "C16" => c16::run(ctx, st),
        "C17" => c17::run(ctx, st),
        "C18" => c18::run(ctx, st),
        "C19" => c19::run(ctx, st),
        _ => return false,
    }
    true
}

pub fn replay(prop: &str, case: &Value, st: &mut Stats) -> bool {
    if case.get("kind").and_then(|k| k.as_str()) == Some("history") {
        // the recorded steps, back to back, in a fresh process
        return match case.get("steps").and_then(|s| s.as_array()) {
            Some(steps) => !steps.is_empty() && steps.iter().all(|s| replay(prop, s, st)),
            None => false,
        };
    }
    if prop == "C02" || prop == "C03" {
        // composed drivers: the case says which oracle produced it
        if prop == "C03" && c03::replay(case, st) {
            return true;
        }
        for p in ["C01", "C04", "C05", "C06", "C07", "C08", "C09", "C10", "C11", "C12", "C13", "C14", "C15", "C16", "C17", "C18", "C19"] {
            if replay(p, case, st) {
                return true;
            }
        }
        return false;
    }
    match prop {
        "C01" => c01::replay(case, st),
        "C04" => c04::replay(case, st),
        "C05" => c05::replay(case, st),
        "C06" => c06::replay(case, st),
        "C07" => c07::replay(case, st),
        "C08" => c08::replay(case, st),
        "C09" => c09::replay(case, st),
        "C10" => c10::replay(case, st, false),
        "C11" => c10::replay(case, st, true),
        "C12" => c12::replay(case, st),
        "C13" => c13::replay(case, st),
        "C14" => c14::replay(case, st),
        "C15" => c15::replay(case, st),
        "C16" => c16::replay(case, st),
        "C17" => c17::replay(case, st),
        "C18" => c18::replay(case, st),
        "C19" => c19::replay(case, st),
        _ => false,
    }
}
