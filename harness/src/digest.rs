//! Feature-independence monitor. The main harness is built with the cargo features `oracle`, `serde` and
//! `verif-hooks`; users mostly build the library with none. This file (compiled into BOTH the main
//! harness and the default-feature crate `harness-nofeat`) runs one deterministic workload per
//! property through the default-feature API only and folds everything the library returns into a
//! digest. `./check` compares the two digests: a difference means the default build behaves
//! differently from the build the oracles watched, on an input of that property's workload.
#![allow(dead_code)]

use sqldatetime::{Date, DateTime, Formatter, IntervalDT, IntervalYM, Round, Time, Timestamp, Trunc};

const MIN_DAY: i32 = -719_162;
const MAX_DAY: i32 = 2_932_896;
const DAY_US: i64 = 86_400_000_000;

struct H(u64, u64);
impl H {
    fn new() -> H {
        H(0xcbf2_9ce4_8422_2325, 0)
    }
    #[inline]
    fn u(&mut self, x: u64) {
        self.0 = (self.0 ^ x).wrapping_mul(0x0000_0100_0000_01B3).rotate_left(23) ^ x.wrapping_mul(0x9E37_79B9_7F4A_7C15);
        self.1 += 1;
    }
    #[inline]
    fn i(&mut self, x: i64) {
        self.u(x as u64)
    }
    fn s(&mut self, s: &str) {
        for b in s.bytes() {
            self.u(b as u64);
        }
        self.u(0xff);
    }
    fn r<T, E>(&mut self, r: Result<T, E>, f: impl FnOnce(&mut H, T)) {
        match r {
            Ok(v) => {
                self.u(1);
                f(self, v)
            }
            Err(_) => self.u(2),
        }
    }
}

struct Lcg(u64);
impl Lcg {
    fn next(&mut self) -> u64 {
        self.0 = self.0.wrapping_mul(6364136223846793005).wrapping_add(1442695040888963407);
        self.0 >> 11
    }
    fn range(&mut self, lo: i64, hi: i64) -> i64 {
        let span = (hi as i128 - lo as i128 + 1) as u128;
        let r = ((self.next() as u128) << 53 | self.next() as u128) % span;
        (lo as i128 + r as i128) as i64
    }
}

fn times() -> [i64; 14] {
    [0, 1, 999_999, 1_000_000, 1_799_999_999, 1_800_000_000, 43_199_999_999, 43_200_000_000, 43_200_000_001, 86_369_999_999, 86_370_000_000, 86_399_000_000, 86_399_999_999, (1 << 32) + 1]
}
fn trunc_all<T: Trunc + Copy>(h: &mut H, v: T, f: &dyn Fn(&T) -> i64) {
    let rs = [v.trunc_century(), v.trunc_year(), v.trunc_iso_year(), v.trunc_quarter(), v.trunc_month(), v.trunc_week(), v.trunc_iso_week(), v.trunc_month_start_week(), v.trunc_day(), v.trunc_sunday_start_week(), v.trunc_hour(), v.trunc_minute()];
    for r in rs {
        h.r(r, |h, x| h.i(f(&x)));
    }
}
fn round_all<T: Round + Copy>(h: &mut H, v: T, f: &dyn Fn(&T) -> i64) {
    let rs = [v.round_century(), v.round_year(), v.round_iso_year(), v.round_quarter(), v.round_month(), v.round_week(), v.round_iso_week(), v.round_month_start_week(), v.round_day(), v.round_sunday_start_week(), v.round_hour(), v.round_minute()];
    for r in rs {
        h.r(r, |h, x| h.i(f(&x)));
    }
}

const DATE_TOKENS: [&str; 22] = ["YYYY", "YYY", "YY", "Y", "MM", "MON", "Mon", "mon", "MONTH", "Month", "month", "DD", "DDD", "D", "DAY", "Day", "day", "DY", "Dy", "dy", "W", "WW"];
const TIME_TOKENS: [&str; 14] = ["HH", "HH12", "HH24", "MI", "SS", "FF", "FF1", "FF3", "FF6", "FF9", "AM", "pm", "A.M.", "p.m."];

pub fn digest(prop: &str) -> Option<(u64, u64)> {
    let mut h = H::new();
    match prop {
        "C01" => {
            for n in (MIN_DAY - 3)..=(MAX_DAY + 3) {
                h.r(Date::try_from_days(n), |h, d| {
                    let (y, m, dd) = d.extract();
                    h.i(y as i64);
                    h.u(m as u64);
                    h.u(dd as u64);
                    h.u(d.day_of_week() as u64);
                    h.r(Date::try_from_ymd(y, m, dd), |h, x| h.i(x.days() as i64));
                });
            }
            for y in [-1, 0, 1, 4, 100, 400, 1582, 1900, 2000, 2100, 9999, 10000] {
                for m in 0..=13u32 {
                    for d in 0..=32u32 {
                        h.r(Date::try_from_ymd(y, m, d), |h, x| h.i(x.days() as i64));
                        h.u(Date::is_valid(y, m, d) as u64);
                    }
                }
            }
        }
        "C07" => {
            for n in (MIN_DAY..=MAX_DAY).step_by(11) {
                let d = Date::try_from_days(n).ok()?;
                for t in times() {
                    let tm = Time::try_from_usecs(t).ok()?;
                    let ts = Timestamp::new(d, tm);
                    h.i(ts.usecs());
                    let (d2, t2) = ts.extract();
                    h.i(d2.days() as i64);
                    h.i(t2.usecs());
                    h.i(ts.year().unwrap_or(-1) as i64 * 400 + ts.month().unwrap_or(-1) as i64 * 32 + ts.day().unwrap_or(-1) as i64);
                    h.i(ts.hour().unwrap_or(-1) as i64 * 60 + ts.minute().unwrap_or(-1) as i64);
                    h.u(ts.second().unwrap_or(-1.0).to_bits());
                    h.i(ts.date().map(|x| x.days()).unwrap_or(0) as i64);
                }
            }
            for s in 0..86_400i64 {
                let t = Time::try_from_usecs(s * 1_000_000 + (s % 7) * 142_857).ok()?;
                let (a, b, c, e) = t.extract();
                h.u(((a * 60 + b) * 60 + c) as u64 * 1_000_000 + e as u64);
                h.r(Time::try_from_hms(a, b, c, e), |h, x| h.i(x.usecs()));
            }
            for hh in [0u32, 23, 24, u32::MAX] {
                for mi in [0u32, 59, 60, u32::MAX] {
                    for us in [0u32, 999_999, 1_000_000, u32::MAX] {
                        h.r(Time::try_from_hms(hh, mi, mi, us), |h, x| h.i(x.usecs()));
                        h.u(Time::is_valid(hh, mi, mi, us) as u64);
                    }
                }
            }
        }
        "C08" => {
            let mut g = Lcg(8);
            for _ in 0..400_000 {
                let a = Timestamp::try_from_usecs(g.range(MIN_DAY as i64 * DAY_US, (MAX_DAY as i64 + 1) * DAY_US - 1)).ok()?;
                let i = IntervalDT::try_from_usecs(g.range(-4_000_000 * DAY_US, 4_000_000 * DAY_US)).ok()?;
                h.r(a.add_interval_dt(i), |h, x| h.i(x.usecs()));
                h.r(a.sub_interval_dt(i), |h, x| h.i(x.usecs()));
                let b = Timestamp::try_from_usecs(g.range(MIN_DAY as i64 * DAY_US, (MAX_DAY as i64 + 1) * DAY_US - 1)).ok()?;
                h.i(a.sub_timestamp(b).usecs());
                let d = Date::try_from_days(g.range(MIN_DAY as i64, MAX_DAY as i64) as i32).ok()?;
                let k = g.range(-4_000_000, 4_000_000) as i32;
                h.r(d.add_days(k), |h, x| h.i(x.days() as i64));
                h.r(d.sub_days(k), |h, x| h.i(x.days() as i64));
                h.i(a.sub_date(d).usecs());
                h.i(d.sub_timestamp(a).usecs());
                let t = Time::try_from_usecs(g.range(0, DAY_US - 1)).ok()?;
                h.r(a.add_time(t), |h, x| h.i(x.usecs()));
                h.r(a.sub_time(t), |h, x| h.i(x.usecs()));
                h.r(d.sub_time(t), |h, x| h.i(x.usecs()));
                let f = g.range(-3 * DAY_US, 3 * DAY_US) as f64 / DAY_US as f64;
                h.r(a.add_days(f), |h, x| h.i(x.usecs()));
                h.r(a.sub_days(f), |h, x| h.i(x.usecs()));
                let j = IntervalDT::try_from_usecs(g.range(-8_640_000_000_000_000_000, 8_640_000_000_000_000_000)).ok()?;
                h.r(i.add_interval_dt(j), |h, x| h.i(x.usecs()));
                h.r(j.sub_interval_dt(i), |h, x| h.i(x.usecs()));
                h.r(j.sub_time(t), |h, x| h.i(x.usecs()));
                let p = IntervalYM::try_from_months(g.range(-2_136_000_000, 2_136_000_000) as i32).ok()?;
                let q = IntervalYM::try_from_months(g.range(-2_136_000_000, 2_136_000_000) as i32).ok()?;
                h.r(p.add_interval_ym(q), |h, x| h.i(x.months() as i64));
                h.r(p.sub_interval_ym(q), |h, x| h.i(x.months() as i64));
            }
        }
        "C09" => {
            for n in (MIN_DAY..=MAX_DAY).step_by(3) {
                let d = Date::try_from_days(n).ok()?;
                h.i(d.last_day_of_month().days() as i64);
                let ts = d.and_time(Time::try_from_usecs((n as i64).rem_euclid(86_400) * 1_000_000 + 7).ok()?);
                h.i(ts.last_day_of_month().usecs());
                for k in [-1200i32, -48, -13, -12, -1, 1, 2, 11, 12, 13, 48, 1200, 119_987] {
                    let i = IntervalYM::try_from_months(k).ok()?;
                    h.r(d.add_interval_ym(i), |h, x| h.i(x.usecs()));
                    h.r(ts.sub_interval_ym(i), |h, x| h.i(x.usecs()));
                }
            }
        }
        "C10" | "C11" => {
            let round = prop == "C11";
            for n in MIN_DAY..=MAX_DAY {
                let d = Date::try_from_days(n).ok()?;
                if round {
                    round_all(&mut h, d, &|x: &Date| x.days() as i64);
                } else {
                    trunc_all(&mut h, d, &|x: &Date| x.days() as i64);
                }
                if n % 5 == 0 {
                    for t in times() {
                        let ts = d.and_time(Time::try_from_usecs(t).ok()?);
                        if round {
                            round_all(&mut h, ts, &|x: &Timestamp| x.usecs());
                        } else {
                            trunc_all(&mut h, ts, &|x: &Timestamp| x.usecs());
                        }
                    }
                }
            }
        }
        "C12" => {
            let mut g = Lcg(12);
            for s in 0..86_400i64 {
                let t = Time::try_from_usecs(s * 1_000_000 + (s % 3) * 499_999).ok()?;
                for iv in [0i64, 1, -1, DAY_US - 1, DAY_US, DAY_US + 1, -DAY_US, -(DAY_US + 1), DAY_US - t.usecs(), -t.usecs() - 1, 1 << 36, g.range(-8_640_000_000_000_000_000, 8_640_000_000_000_000_000)] {
                    let i = IntervalDT::try_from_usecs(iv).ok()?;
                    h.i(t.add_interval_dt(i).usecs());
                    h.i(t.sub_interval_dt(i).usecs());
                    h.i(Time::from(i).usecs());
                    h.u((t == i) as u64 * 16 + (t < i) as u64 * 8 + (t >= i) as u64 * 4 + (i > t) as u64 * 2 + (i <= t) as u64);
                }
                let u = Time::try_from_usecs(g.range(0, DAY_US - 1)).ok()?;
                h.i(t.sub_time(u).usecs());
            }
        }
        "C13" => {
            for m in (-2_136_000_000i64..=2_136_000_000).step_by(9973) {
                let x = IntervalYM::try_from_months(m as i32).ok()?;
                let (sg, y, mo) = x.extract();
                h.u((sg == sqldatetime::Sign::Negative) as u64);
                h.u(y as u64 * 12 + mo as u64);
                h.i((-x).months() as i64);
                h.i(x.year().unwrap_or(0) as i64 * 100 + x.month().unwrap_or(0) as i64);
                h.r(IntervalYM::try_from_ym(y, mo), |h, v| h.i(v.months() as i64));
            }
            let mut g = Lcg(13);
            for k in 0..600_000 {
                let u = if k % 3 == 0 { g.range(-3 * DAY_US, 3 * DAY_US) } else { g.range(-8_640_000_000_000_000_000, 8_640_000_000_000_000_000) };
                let x = IntervalDT::try_from_usecs(u).ok()?;
                let (sg, d, hh, mi, ss, us) = x.extract();
                h.u((sg == sqldatetime::Sign::Negative) as u64);
                h.u(d as u64);
                h.u(((hh * 60 + mi) * 60 + ss) as u64 * 1_000_000 + us as u64);
                h.i((-x).usecs());
                h.i(x.day().unwrap_or(0) as i64);
                h.i(x.hour().unwrap_or(0) as i64 * 60 + x.minute().unwrap_or(0) as i64);
                h.u(x.second().unwrap_or(0.0).to_bits());
                h.r(IntervalDT::try_from_dhms(d, hh, mi, ss, us), |h, v| h.i(v.usecs()));
                h.u(IntervalDT::is_valid(d, hh, mi, ss, us) as u64);
            }
            for y in [0u32, 177_999_999, 178_000_000, 178_000_001, u32::MAX] {
                for mo in [0u32, 11, 12, u32::MAX] {
                    h.r(IntervalYM::try_from_ym(y, mo), |h, v| h.i(v.months() as i64));
                    h.u(IntervalYM::is_valid_ym(y, mo) as u64);
                }
            }
            for d in [0u32, 99_999_999, 100_000_000, 100_000_001, u32::MAX] {
                for x in [0u32, 23, 24, 59, 60, u32::MAX] {
                    h.r(IntervalDT::try_from_dhms(d, x, x, x, x), |h, v| h.i(v.usecs()));
                    h.r(IntervalDT::try_from_dhms(d, 0, 0, x, 0), |h, v| h.i(v.usecs()));
                    h.u(IntervalDT::is_valid(d, 0, 0, x, 0) as u64);
                }
            }
        }
        "C14" => {
            let mut g = Lcg(14);
            let specials = [0.0, -0.0, 1.0, -1.0, 0.5, 2.0, 0.1, 1e-300, 1e300, f64::INFINITY, f64::NEG_INFINITY, f64::NAN, 5e-324, 2147483648.0, 4e9, 9007199254740993.0];
            for k in 0..600_000u64 {
                let f = if k % 5 == 0 { specials[(k / 5 % 16) as usize] } else if k % 5 == 1 { g.range(-5000, 5000) as f64 } else { (g.range(-1_000_000_000, 1_000_000_000) as f64) * (2f64).powi(g.range(-40, 20) as i32) };
                let x = IntervalDT::try_from_usecs(if k % 2 == 0 { g.range(-400 * DAY_US, 400 * DAY_US) } else { g.range(-8_640_000_000_000_000_000, 8_640_000_000_000_000_000) }).ok()?;
                h.r(x.mul_f64(f), |h, v| h.i(v.usecs()));
                h.r(x.div_f64(f), |h, v| h.i(v.usecs()));
                let y = IntervalYM::try_from_months(g.range(-2_136_000_000, 2_136_000_000) as i32).ok()?;
                h.r(y.mul_f64(f), |h, v| h.i(v.months() as i64));
                h.r(y.div_f64(f), |h, v| h.i(v.months() as i64));
                let t = Time::try_from_usecs(g.range(0, DAY_US - 1)).ok()?;
                h.r(t.mul_f64(f), |h, v| h.i(v.usecs()));
                h.r(t.div_f64(f), |h, v| h.i(v.usecs()));
            }
        }
        "C04" | "C19" => {
            // pictures: every token, separators, a few composites; C19 additionally hashes acceptance of short strings
            let mut pics: Vec<String> = DATE_TOKENS.iter().chain(TIME_TOKENS.iter()).map(|s| s.to_string()).collect();
            pics.extend(["YYYY-MM-DD HH24:MI:SS.FF6", "DAY, DD MONTH YYYY", "dy mon dd hh:mi:ss am", "YYYY/DDD\\D;W,WW", "DD HH24:MI:SS.FF3", "YYYY-MM"].iter().map(|s| s.to_string()));
            if prop == "C19" {
                let alpha = b"YMDHISFAPWT.-: 124";
                for a in alpha {
                    for b in alpha {
                        for c in alpha {
                            let p = String::from_utf8(vec![*a, *b, *c]).ok()?;
                            h.u(Formatter::try_new(&p).is_ok() as u64);
                            pics.push(p);
                        }
                    }
                }
                for n in [1usize, 2, 35, 36, 37, 255, 256, 257, 300] {
                    pics.push(format!("YYYY{}DD", " ".repeat(n)));
                    pics.push("MI".repeat(n.min(40)));
                }
            }
            let fs: Vec<(String, Formatter)> = pics.into_iter().filter_map(|p| Formatter::try_new(&p).ok().map(|f| (p, f))).collect();
            h.u(fs.len() as u64);
            let step = if prop == "C04" { 97 } else { 40_009 };
            let mut s = String::new();
            for n in (MIN_DAY..=MAX_DAY).step_by(step) {
                let d = Date::try_from_days(n).ok()?;
                let tm = Time::try_from_usecs((n as i64).rem_euclid(86_400) * 1_000_000 + (n as i64).rem_euclid(1_000_000)).ok()?;
                let ts = d.and_time(tm);
                let ym = IntervalYM::try_from_months(n % 2_000_000).ok()?;
                let dt = IntervalDT::try_from_usecs(n as i64 * 1_000_003_000).ok()?;
                for (_, f) in fs.iter() {
                    s.clear();
                    let a = f.format(d, &mut s).is_ok();
                    h.u(a as u64);
                    if a {
                        h.s(&s);
                    }
                    s.clear();
                    let a = f.format(ts, &mut s).is_ok();
                    h.u(a as u64);
                    if a {
                        h.s(&s);
                    }
                    s.clear();
                    let a = f.format(tm, &mut s).is_ok();
                    h.u(a as u64);
                    if a {
                        h.s(&s);
                    }
                    s.clear();
                    let a = f.format(ym, &mut s).is_ok();
                    h.u(a as u64);
                    if a {
                        h.s(&s);
                    }
                    s.clear();
                    let a = f.format(dt, &mut s).is_ok();
                    h.u(a as u64);
                    if a {
                        h.s(&s);
                    }
                }
            }
        }
        "C05" | "C06" => {
            // complete pictures only (no clock): format a value, damage the text deterministically (C05) or not (C06), parse
            let dpics = ["YYYY-MM-DD", "DD/MM/YYYY", "YYYYMMDD", "DAY, DD MONTH YYYY", "DY YYYY.MM.DD DDD", "D YYYY MON DD", "YYYY DDD"];
            let tpics = ["HH24:MI:SS.FF", "HH:MI:SS AM", "P.M. HH12 MI SS FF6", "HH24MISS"];
            let spics = ["YYYY-MM-DD HH24:MI:SS.FF", "DD-MON-YYYY HH:MI:SS.FF9 AM", "YYYYMMDDHH24MISSFF6"];
            let ypics = ["YYYY-MM", "MM-YYYY", "YY MM"];
            let ipics = ["DD HH24:MI:SS.FF", "HH24:MI:SS.FF6 DD", "DD HH24 MI SS FF9"];
            let mut g = Lcg(5);
            let damage = |g: &mut Lcg, t: String, on: bool| -> String {
                if !on || t.is_empty() {
                    return t;
                }
                let mut b: Vec<u8> = t.into_bytes();
                let pos = (g.next() % b.len() as u64) as usize;
                match g.next() % 5 {
                    0 => {
                        b.remove(pos);
                    }
                    1 => b.insert(pos, b' '),
                    2 => b[pos] = b'9',
                    3 => b.insert(pos, b'+'),
                    _ => b.push(b'x'),
                }
                String::from_utf8_lossy(&b).into_owned()
            };
            let c05 = prop == "C05";
            for n in (MIN_DAY..=MAX_DAY).step_by(if c05 { 41 } else { 23 }) {
                let d = Date::try_from_days(n).ok()?;
                let tm = Time::try_from_usecs((n as i64).rem_euclid(86_400) * 1_000_000 + (n as i64 * 7919).rem_euclid(1_000_000)).ok()?;
                let ts = d.and_time(tm);
                let ym = IntervalYM::try_from_months(((n as i64 * 7) % 2_000_000) as i32).ok()?;
                let dt = IntervalDT::try_from_usecs(n as i64 * 1_000_003_017).ok()?;
                for p in dpics {
                    let t = damage(&mut g, d.format(p).ok()?.to_string(), c05 && n % 3 == 0);
                    h.r(Date::parse(&t, p), |h, x| h.i(x.days() as i64));
                }
                for p in tpics {
                    let t = damage(&mut g, tm.format(p).ok()?.to_string(), c05 && n % 3 == 1);
                    h.r(Time::parse(&t, p), |h, x| h.i(x.usecs()));
                }
                for p in spics {
                    let t = damage(&mut g, ts.format(p).ok()?.to_string(), c05 && n % 3 == 2);
                    h.r(Timestamp::parse(&t, p), |h, x| h.i(x.usecs()));
                }
                for p in ypics {
                    let t = damage(&mut g, ym.format(p).ok()?.to_string(), c05 && n % 5 == 0);
                    h.r(IntervalYM::parse(&t, p), |h, x| h.i(x.months() as i64));
                }
                for p in ipics {
                    let t = damage(&mut g, dt.format(p).ok()?.to_string(), c05 && n % 5 == 1);
                    h.r(IntervalDT::parse(&t, p), |h, x| h.i(x.usecs()));
                }
            }
        }
        _ => return None,
    }
    Some((h.0, h.1))
}
