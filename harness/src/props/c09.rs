//! C09 - adding months keeps the day of month and time, or fails; month ends are exact.
use crate::cal::{cal, days_from_civil, dim};
use crate::core::*;
use crate::kinds;
use crate::pools::*;
use serde_json::Value;
use sqldatetime::{Date, IntervalYM, OracleDate, Timestamp};

kinds!(K { DateYm = "Date::add/sub_interval_ym", TsYm = "Timestamp::add/sub_interval_ym", OraYm = "OracleDate::add/sub_interval_ym",
           DateLdom = "Date::last_day_of_month", TsLdom = "Timestamp::last_day_of_month", OraLdom = "OracleDate::last_day_of_month" });
pub type C = G<K>;
impl Case for C {
    fn to_json(&self) -> Value {
        g_json(self.k.name(), self.a, self.b, self.c, self.f)
    }
}

/// model: Some(day number) of the same day-of-month k months away, None = must fail
#[inline]
fn model(n: i32, k: i64) -> Option<i64> {
    let (y, m, d) = cal().of(n);
    let tot = 12 * y as i64 + (m as i64 - 1) + k;
    let ny = tot.div_euclid(12);
    let nm = tot.rem_euclid(12) as u32 + 1;
    if !(1..=9999).contains(&ny) || d > dim(ny, nm) {
        return None;
    }
    Some(days_from_civil(ny, nm as i64, d as i64))
}

pub fn check(st: &mut Stats, c: &C) {
    match c.k {
        K::DateYm | K::TsYm | K::OraYm => {
            let k = c.b;
            let iv = match IntervalYM::try_from_months(k as i32) {
                Ok(i) => i,
                Err(_) => return st.fail("C09/interval-constructor-rejects-valid", format!("{}", k)),
            };
            let (n, tod) = (c.a.div_euclid(DAY_US) as i32, c.a.rem_euclid(DAY_US));
            let (n, tod) = if c.k == K::DateYm { (c.a as i32, 0) } else { (n, tod) };
            let exp_add = model(n, k).map(|d| d * DAY_US + tod);
            let exp_sub = model(n, -k).map(|d| d * DAY_US + tod);
            let (add, sub): (Result<i64, _>, Result<i64, _>) = match c.k {
                K::DateYm => {
                    let d = Date::try_from_days(n).expect("date");
                    st.op(Op::D_add_interval_ym);
                    st.op(Op::D_sub_interval_ym);
                    let (a, s) = (d.add_interval_ym(iv), d.sub_interval_ym(iv));
                    st.obs_r(Op::D_add_interval_ym, &a);
                    st.obs_r(Op::D_sub_interval_ym, &s);
                    (a.map(|x| x.usecs()), s.map(|x| x.usecs()))
                }
                K::TsYm => {
                    let t = Timestamp::try_from_usecs(c.a).expect("timestamp");
                    st.op(Op::TS_add_interval_ym);
                    st.op(Op::TS_sub_interval_ym);
                    let (a, s) = (t.add_interval_ym(iv), t.sub_interval_ym(iv));
                    st.obs_r(Op::TS_add_interval_ym, &a);
                    st.obs_r(Op::TS_sub_interval_ym, &s);
                    (a.map(|x| x.usecs()), s.map(|x| x.usecs()))
                }
                _ => {
                    let o = OracleDate::try_from_usecs(c.a).expect("oracle date");
                    st.op(Op::O_add_interval_ym);
                    st.op(Op::O_sub_interval_ym);
                    let (a, s) = (o.add_interval_ym(iv), o.sub_interval_ym(iv));
                    st.obs_r(Op::O_add_interval_ym, &a);
                    st.obs_r(Op::O_sub_interval_ym, &s);
                    (a.map(|x| x.usecs()), s.map(|x| x.usecs()))
                }
            };
            let before = if c.a < 0 && tod != 0 { "/before-epoch" } else { "" };
            for (what, got, exp) in [("add", &add, exp_add), ("sub", &sub, exp_sub)] {
                match (got, exp) {
                    (Ok(g), Some(e)) => {
                        if *g != e {
                            st.fail(format!("C09/{}/{}/wrong-result{}", c.k.name(), what, before), format!("base {} k {}: got {} expected {}", c.a, k, g, e));
                        }
                    }
                    (Ok(g), None) => st.fail(
                        format!("C09/{}/{}/ok-although-no-such-day-or-year{}", c.k.name(), what, before),
                        format!("base {} ({:?}) k {}: got {} ({:?}) - clamped or spilled instead of failing", c.a, cal().of(n), k, g, civil(*g)),
                    ),
                    (Err(e), Some(x)) => st.fail(format!("C09/{}/{}/err-although-day-exists{}", c.k.name(), what, before), format!("base {} k {}: {:?}, expected {}", c.a, k, e, x)),
                    (Err(_), None) => {}
                }
            }
        }
        K::DateLdom | K::TsLdom | K::OraLdom => {
            let (n, tod) = if c.k == K::DateLdom { (c.a as i32, 0) } else { (c.a.div_euclid(DAY_US) as i32, c.a.rem_euclid(DAY_US)) };
            let (y, m, d) = cal().of(n);
            let last = dim(y as i64, m);
            let exp_day = n as i64 + (last - d) as i64;
            let got = match c.k {
                K::DateLdom => {
                    st.op(Op::D_last_day_of_month);
                    let r = Date::try_from_days(n).expect("date").last_day_of_month();
                    st.obs(Op::D_last_day_of_month, &r);
                    r.days() as i64 * DAY_US
                }
                K::TsLdom => {
                    st.op(Op::TS_last_day_of_month);
                    let r = Timestamp::try_from_usecs(c.a).expect("ts").last_day_of_month();
                    st.obs(Op::TS_last_day_of_month, &r);
                    r.usecs()
                }
                _ => {
                    st.op(Op::O_last_day_of_month);
                    let r = OracleDate::try_from_usecs(c.a).expect("ora").last_day_of_month();
                    st.obs(Op::O_last_day_of_month, &r);
                    r.usecs()
                }
            };
            if got != exp_day * DAY_US + tod {
                st.fail(format!("C09/{}/wrong", c.k.name()), format!("base {} ({:?} +{}us): got {} expected day {} same time", c.a, (y, m, d), tod, got, exp_day));
            }
        }
    }
}
fn civil(us: i64) -> (i64, u32, u32) {
    crate::cal::civil_from_days(us.div_euclid(DAY_US))
}

fn offsets(n: i32, rng: &mut Rng, nrand: usize, out: &mut Vec<i64>) {
    out.clear();
    out.extend(-40..=40);
    out.extend([-119_988, -119_987, -4800, -1200, -13 * 12, 13 * 12, 1200, 4800, 119_987, 119_988, 12 * 9998, -12 * 9998, YM_LIM as i64, -(YM_LIM as i64), YM_LIM as i64 - 1, 1 - YM_LIM as i64]);
    // whole years: every multiple of 4 years up to 40, and 100/200/300/400/800-year steps (leap-day sources meeting century targets)
    for y in [4i64, 8, 12, 16, 20, 24, 28, 32, 36, 40, 44, 48, 52, 96, 100, 104, 196, 200, 300, 396, 400, 404, 800, 1000, 2000] {
        out.push(12 * y);
        out.push(-12 * y);
    }
    let (y, m, _) = cal().of(n);
    let cur = 12 * y as i64 + m as i64 - 1;
    for e in [-1, 0, 1] {
        out.push(12 - cur + e); // first supported month 0001-01
        out.push(12 * 9999 + 11 - cur + e); // last supported month 9999-12
    }
    for _ in 0..nrand {
        out.push(match rng.below(3) {
            0 => rng.range_i64(-(YM_LIM as i64), YM_LIM as i64),
            1 => rng.range_i64(-120_000, 120_000),
            _ => rng.range_i64(-600, 600),
        });
    }
    out.sort();
    out.dedup();
}

/// cases evaluated as the first library call of a fresh thread and (leg `cold`) of a fresh process
pub fn cold_list() -> Vec<C> {
    let mut v = vec![];
    for d in [0i64, 1, -1, 30, 31, -31, MIN_DAY as i64, MAX_DAY as i64, 11_016, -17, 14] {
        v.push(C::ab(K::DateLdom, d, 0));
        v.push(C::ab(K::TsLdom, d * DAY_US + 1, 0));
        v.push(C::ab(K::OraLdom, d * DAY_US, 0));
        for k in [1i64, -1, 12, -12, 2, -2] {
            v.push(C::ab(K::DateYm, d, k));
            v.push(C::ab(K::TsYm, d * DAY_US + 43_200_000_000, k));
            v.push(C::ab(K::OraYm, d * DAY_US, k));
        }
    }
    v
}

pub fn run(ctx: &Ctx, st: &mut Stats) {
    cal();
    let stride = ctx.tier.pick(7919, ctx.q(11, 5), 1);
    let nrand = ctx.tier.pick(2, 16, 64);
    // Date: all dates (quick: every `stride`-th day plus every 28th..31st) x offsets
    ctx.par(st, "Date: dates x month-offsets", true, 0, N_DAYS as i64, |st, i, rng| {
        let n = MIN_DAY + i as i32;
        let (_, _, d) = cal().of(n);
        if stride != 1 && i % stride != 0 && (d < 28 || ctx.tier == Tier::San) {
            return;
        }
        let mut offs = Vec::with_capacity(200);
        offsets(n, rng, nrand, &mut offs);
        for &k in &offs {
            st.eval(&C::ab(K::DateYm, n as i64, k), check);
        }
        st.eval(&C::ab(K::DateLdom, n as i64, 0), check);
    });
    if stride == 1 {
        st.mark_exhaustive("Date: dates x month-offsets", "all 3,652,059 dates x offsets -40..=40, specials, first/last-month offsets, 64 seeded random offsets (add and sub); last_day_of_month of every date");
    }
    // Timestamp / OracleDate: strided dates x critical times
    let times = time_pool();
    let tstride = ctx.tier.pick(40_009, 211, 13);
    let times_ref = &times;
    ctx.par(st, "Timestamp,OracleDate: dates x critical-times x month-offsets", true, 0, N_DAYS as i64, |st, i, rng| {
        let n = MIN_DAY + i as i32;
        let (_, m, d) = cal().of(n);
        let month_end = d >= 28 && (ctx.tier == Tier::Thorough || (m <= 3 && i % 5 == 0));
        if i % tstride != 0 && !month_end {
            return;
        }
        let mut offs = Vec::with_capacity(200);
        offsets(n, rng, 2, &mut offs);
        for (ti, &t) in times_ref.iter().enumerate() {
            if month_end && i % tstride != 0 && ti % 6 != 0 {
                continue;
            }
            let base = n as i64 * DAY_US + t;
            for &k in offs.iter().step_by(if month_end && i % tstride != 0 { 3 } else { 1 }) {
                st.eval(&C::ab(K::TsYm, base, k), check);
                if t % 1_000_000 == 0 {
                    st.eval(&C::ab(K::OraYm, base, k), check);
                }
            }
        }
    });
    // last_day_of_month: all dates x critical times
    let lstride = ctx.tier.pick(4001, 3, 1);
    let nt = times.len() as i64;
    ctx.par(st, "last_day_of_month: dates x critical-times", true, 0, (N_DAYS as i64 / lstride) * nt, |st, i, _| {
        let n = MIN_DAY as i64 + (i / nt) * lstride;
        let t = times_ref[(i % nt) as usize];
        st.eval(&C::ab(K::TsLdom, n * DAY_US + t, 0), check);
        if t % 1_000_000 == 0 {
            st.eval(&C::ab(K::OraLdom, n * DAY_US + t, 0), check);
        }
    });
    if lstride == 1 {
        st.mark_exhaustive("last_day_of_month: dates x critical-times", "all dates x all critical times (Timestamp; OracleDate at whole seconds)");
    }
    // ---- history monitors
    // one offset across many different days back to back (offset loop outermost), ascending and descending
    let hoffs: Vec<i64> = vec![-1, 1, -12, 12, -13, 11, -25, 48, -48, 1200, -1200, 6, -6];
    let hdates: Vec<i64> = date_pool().into_iter().map(|x| x as i64).collect();
    let (hoffs_ref, hdates_ref) = (&hoffs, &hdates);
    ctx.par(st, "history: same offset on consecutive different days (offset outermost)", true, 0, hoffs.len() as i64 * 2, |st, i, _| {
        let k = hoffs_ref[(i / 2) as usize];
        let desc = i % 2 == 1;
        let n = hdates_ref.len();
        for j in 0..n {
            let d = hdates_ref[if desc { n - 1 - j } else { j }];
            st.eval(&C::ab(K::DateYm, d, k), check);
            st.eval(&C::ab(K::TsYm, d * DAY_US + 45_296_000_000, k), check);
            st.eval(&C::ab(K::OraYm, d * DAY_US + 45_296_000_000, k), check);
            st.eval(&C::ab(K::DateLdom, d, 0), check);
        }
        // a dense run of consecutive days as well
        for d in 0..800i64 {
            let day = if desc { 400 - d } else { d - 400 };
            st.eval(&C::ab(K::TsYm, day * DAY_US + 1, k), check);
            st.eval(&C::ab(K::DateYm, day, k), check);
        }
    });
    let na = ctx.tier.pick(200, 200_000, 2_000_000);
    ctx.par(st, "history: A,B,A", false, 0, na, |st, i, rng| {
        let mk = |rng: &mut Rng| {
            let base = rng.range_i64(TS_MIN, TS_MAX);
            let k = rng.range_i64(-40, 40);
            match rng.below(4) {
                0 => C::ab(K::DateYm, base.div_euclid(DAY_US), k),
                1 => C::ab(K::TsYm, base, k),
                2 => C::ab(K::DateLdom, base.div_euclid(DAY_US), 0),
                _ => C::ab(K::TsLdom, base, 0),
            }
        };
        let (a, b) = (mk(rng), mk(rng));
        st.eval_hist(mix(a.hash(a.k as u64 + 9), b.hash(b.k as u64 + 11)), vec![a, b, a], check);
        let _ = i;
    });
    let np = ctx.tier.pick(300, 600_000, 6_000_000);
    ctx.par(st, "history: other operations on related dates (primers: base and target month), then the judged case; also A,A", false, 0, np, |st, i, rng| {
        let base = rng.range_i64(TS_MIN, TS_MAX);
        let k = if rng.chance(3, 4) { rng.range_i64(-40, 40) } else { rng.range_i64(-1300, 1300) };
        let n = base.div_euclid(DAY_US);
        let c = match rng.below(6) {
            0 => C::ab(K::DateYm, n, k),
            1 => C::ab(K::TsYm, base, k),
            2 => C::ab(K::OraYm, base - base.rem_euclid(1_000_000), k),
            3 => C::ab(K::DateLdom, n, 0),
            4 => C::ab(K::TsLdom, base, 0),
            _ => C::ab(K::OraLdom, base - base.rem_euclid(1_000_000), 0),
        };
        // anchors: the base date, and a date in the month the offset lands in
        let target = (n + k * 30).clamp(MIN_DAY as i64, MAX_DAY as i64);
        let exact = model(n as i32, k).unwrap_or(target);
        if i % 8 == 0 {
            st.eval_hist(mix(c.hash(c.k as u64 + 21), 0xAA), vec![c, c], check);
        } else {
            let pr = crate::primers::gen_some(rng, &[n, exact, target], base.rem_euclid(DAY_US), &[k]);
            st.eval_primed(mix(c.hash(c.k as u64 + 22), i as u64), pr, c, check);
        }
    });
    let ystep = ctx.tier.pick(1999, 29, 1);
    ctx.par(st, "history: last_day_of_month on A then on A+delta, delta -70..=70, A around every month end (3 types)", true, 0, (9999 + ystep - 1) / ystep, |st, i, _| {
        let y = 1 + i * ystep;
        for a in crate::pools::month_end_days(y) {
            for delta in -70i64..=70 {
                let b = a + delta;
                if !(MIN_DAY as i64..=MAX_DAY as i64).contains(&b) {
                    continue;
                }
                let k = [K::DateLdom, K::TsLdom, K::OraLdom][((a + delta).rem_euclid(3)) as usize];
                let (ca, cb) = if k == K::DateLdom { (C::ab(k, a, 0), C::ab(k, b, 0)) } else { (C::ab(k, a * DAY_US + 45_296_000_000, 0), C::ab(k, b * DAY_US + 45_296_000_000, 0)) };
                st.eval_hist(mix(mix(a as u64, b as u64), k as u64), vec![ca, cb], check);
            }
        }
    });
    // century arithmetic: offsets of whole centuries (+-1 month) from the days around the end of February and the 29th
    st.stratum("century years and their neighbours x offsets 1200*j + {-1,0,1}", true);
    for cy in (100..=9900i64).step_by(ctx.tier.pick(2300, 100, 100)) {
        for y in [cy - 1, cy, cy + 1, cy + 4] {
            for (m, d) in [(1i64, 29i64), (1, 30), (1, 31), (2, 1), (2, 15), (2, 28), (2, 29), (3, 1), (3, 29), (3, 31), (12, 31)] {
                if d > crate::cal::dim(y, m as u32) as i64 || !(1..=9999).contains(&y) {
                    continue;
                }
                let n = days_from_civil(y, m, d);
                for j in [-8i64, -4, -3, -2, -1, 1, 2, 3, 4, 8] {
                    for e in [-1i64, 0, 1] {
                        let k = 1200 * j + e;
                        st.eval(&C::ab(K::DateYm, n, k), check);
                        st.eval(&C::ab(K::TsYm, n * DAY_US + 49_641_654_321, k), check);
                        st.eval(&C::ab(K::OraYm, n * DAY_US + 49_641_000_000, k), check);
                    }
                }
            }
        }
    }
    cold_threads(st, "history: first call on a fresh thread", cold_list(), check);
    // seeded random (timestamp, offset)
    let n = ctx.tier.pick(1_000, 1_000_000, ctx.big(20_000_000, 200_000_000));
    ctx.par(st, "random/timestamp x offset", false, 0, n, |st, _, rng| {
        let base = rng.range_i64(TS_MIN, TS_MAX);
        let k = match rng.below(3) {
            0 => rng.range_i64(-(YM_LIM as i64), YM_LIM as i64),
            1 => rng.range_i64(-120_000, 120_000),
            _ => rng.range_i64(-50, 50),
        };
        let c = if rng.chance(1, 3) { C::ab(K::OraYm, base.div_euclid(1_000_000) * 1_000_000, k) } else { C::ab(K::TsYm, base, k) };
        st.eval_h(c.hash(c.k as u64), &c, check);
    });
}

pub fn replay(v: &Value, st: &mut Stats) -> bool {
    match K::from_name(&jstr(v, "kind")) {
        Some(k) => {
            st.eval(&C { k, a: ji64(v, "a"), b: ji64(v, "b"), c: ji64(v, "c"), f: jf64(v, "f") }, check);
            true
        }
        None => false,
    }
}
