//! sqlverif: runtime monitors for the sqldatetime properties C01..C19.
//!   sqlverif run <Cnn> --tier quick|thorough|san --seed N --out FILE [--threads N] [--profile NAME]
//!   sqlverif replay <FILE> [--out FILE]
mod cal;
mod core;
mod digest;
mod f64x;
mod pools;
mod primers;
mod props;
mod spell;
mod tok;
mod trmodel;

use crate::core::{Ctx, Stats, Tier};
use std::time::Instant;

fn main() {
    let args: Vec<String> = std::env::args().collect();
    if args.len() >= 3 && args[1] == "digest" {
        // feature-independence monitor: same workload as the default-feature twin crate (harness-nofeat)
        let r = std::panic::catch_unwind(|| digest::digest(&args[2]));
        match r {
            Ok(Some((d, n))) => println!("{{\"property\": \"{}\", \"digest\": \"{:016x}\", \"values_folded\": {}}}", args[2], d, n),
            Ok(None) => println!("{{\"property\": \"{}\", \"digest\": null}}", args[2]),
            Err(_) => println!("{{\"property\": \"{}\", \"digest\": \"panicked\", \"values_folded\": 0}}", args[2]),
        }
        return;
    }
    if args.len() < 3 {
        eprintln!("usage: sqlverif run <Cnn> --tier T --seed N --out FILE | sqlverif replay FILE");
        std::process::exit(64);
    }
    let mut tier = Tier::Quick;
    let mut seed = 1u64;
    let mut out: Option<String> = None;
    let mut threads = std::thread::available_parallelism().map(|n| n.get()).unwrap_or(1);
    let mut profile = String::from("?");
    let mut shard = (0u64, 1u64);
    let mut i = 3;
    while i < args.len() {
        match args[i].as_str() {
            "--tier" => {
                tier = match args[i + 1].as_str() {
                    "quick" => Tier::Quick,
                    "thorough" => Tier::Thorough,
                    "san" => Tier::San,
                    x => {
                        eprintln!("bad tier {}", x);
                        std::process::exit(64)
                    }
                };
                i += 2;
            }
            "--seed" => {
                seed = args[i + 1].parse().unwrap_or(1);
                i += 2;
            }
            "--out" => {
                out = Some(args[i + 1].clone());
                i += 2;
            }
            "--threads" => {
                threads = args[i + 1].parse().unwrap_or(1);
                i += 2;
            }
            "--shard" => {
                let mut it = args[i + 1].split('/');
                shard = (it.next().and_then(|x| x.parse().ok()).unwrap_or(0), it.next().and_then(|x| x.parse().ok()).unwrap_or(1));
                i += 2;
            }
            "--profile" => {
                profile = args[i + 1].clone();
                i += 2;
            }
            x => {
                eprintln!("unknown argument {}", x);
                std::process::exit(64)
            }
        }
    }
    core::install_panic_hook();
    if tier == Tier::San {
        cal::set_light_mode();
    }
    let t0 = Instant::now();
    let mut st = Stats::new();
    st.seq_shard = shard;
    let (prop, tiername) = match args[1].as_str() {
        "run" => {
            let prop = args[2].clone();
            let ctx = Ctx { prop: prop.clone(), tier, seed, threads, profile: profile.clone(), shard, light: false };
            if !props::run(&ctx, &mut st) {
                eprintln!("unknown property {}", prop);
                std::process::exit(64);
            }
            (prop, tier.name().to_string())
        }
        "cold" => {
            // sqlverif cold <Cnn> --shard <index>/<n>   (index = position in the property's cold list; n is ignored)
            let prop = args[2].clone();
            cal::set_light_mode();
            st.seq_shard = (0, 1);
            let idx = if shard.1 == 0 { None } else { Some(shard.0 as usize) };
            match props::cold(&prop, idx, &mut st) {
                Some(n) => st.bumpn("cold list length", n as u64),
                None => {
                    eprintln!("no cold list for {}", prop);
                    std::process::exit(64);
                }
            }
            (prop, "cold".to_string())
        }
        "replay" => {
            let text = std::fs::read_to_string(&args[2]).expect("cannot read replay file");
            let v: serde_json::Value = serde_json::from_str(&text).expect("replay file is not JSON");
            let prop = core::jstr(&v, "property");
            st.stratum("replay", true);
            if !props::replay(&prop, v.get("case").unwrap_or(&serde_json::Value::Null), &mut st) {
                eprintln!("cannot replay: unknown property or case kind");
                std::process::exit(64);
            }
            (prop, "replay".to_string())
        }
        _ => {
            eprintln!("unknown command");
            std::process::exit(64)
        }
    };
    st.finish();
    let wall = t0.elapsed().as_secs_f64();
    let j = st.to_json(&prop, &tiername, seed, &profile, wall);
    let text = serde_json::to_string(&j).unwrap();
    match out {
        Some(p) => std::fs::write(&p, text).expect("cannot write leg result"),
        None => println!("{}", text),
    }
    // the exit code only says "the leg ran"; verdicts are taken from the JSON by ./check
    std::process::exit(0);
}
