#!/usr/bin/env python3
"""Runs checks against property-PRESERVING changes (false-alarm test): every alarm must be examined.
usage: lib/keep_eval.py <candidates-root> [ids like C05:2 ...]   results -> <root>/<Cxx>/keepeval<k>.json"""
import json, os, re, subprocess, sys, time
ROOT = os.path.dirname(os.path.dirname(os.path.abspath(__file__)))
root = sys.argv[1]
sel = sys.argv[2:]
items = []
for c in sorted(os.listdir(root)):
    for k in (1, 2, 3):
        if os.path.exists(os.path.join(root, c, "mut%d.diff" % k)) and (not sel or "%s:%d" % (c, k) in sel):
            items.append((c, k))
for c, k in items:
    patch = os.path.join(root, c, "mut%d.diff" % k)
    if subprocess.run(["git", "-C", "/repo", "diff", "--quiet"]).returncode != 0:
        sys.exit("/repo dirty")
    if subprocess.run(["git", "-C", "/repo", "apply", patch]).returncode != 0:
        print(c, k, "patch does not apply", flush=True)
        continue
    res = {}
    try:
        for p in ([c] if os.environ.get("KEEP_OWN_ONLY") == "1" else [c, "ALL"]):
            r = subprocess.run([os.path.join(ROOT, "check"), p, "quick"], cwd=ROOT, stdout=subprocess.PIPE, stderr=subprocess.STDOUT, env=dict(os.environ, VERIF_DEV_NATIVE_ONLY="1"))
            out = r.stdout.decode("utf-8", "replace")
            keys = re.findall(r"^  key=(.+?) count=(\d+) leg=", out, re.M)
            details = re.findall(r"^  (\[.*)$", out, re.M)
            res[p] = {"exit": r.returncode, "keys": [k_ for k_, _ in keys], "details": [d[:400] for d in details[:6]]}
            print(c, k, p, "exit", r.returncode, [k_ for k_, _ in keys][:4], flush=True)
    finally:
        subprocess.run(["git", "-C", "/repo", "checkout", "--", "."])
    json.dump(res, open(os.path.join(root, c, "keepeval%d%s.json" % (k, os.environ.get("KEEP_TAG", ""))), "w"), indent=1)
