//! One driver (workload + oracle) per property.
use crate::core::{Ctx, Stats};
use serde_json::Value;

pub mod c01;
pub mod c02;
pub mod c03;
pub mod c04;
pub mod c05;
pub mod c06;
pub mod c07;
pub mod c08;
pub mod c09;
pub mod c10;
pub mod c12;
pub mod c13;
pub mod c14;
pub mod c15;
pub mod c16;
pub mod c17;
pub mod c18;
pub mod c19;

pub fn run(ctx: &Ctx, st: &mut Stats) -> bool {
    match ctx.prop.as_str() {
        // development aid (not a registered check): every driver in light mode, all findings kept
        "ALL" => c02::compose(ctx, st, &|_| true),
        "C02" => c02::run(ctx, st),
        "C03" => c03::run(ctx, st),
        _ => return run_one(ctx, st),
    }
    true
}

/// the self-contained drivers (everything except the composed C02 / C03)
pub fn run_one(ctx: &Ctx, st: &mut Stats) -> bool {
    match ctx.prop.as_str() {
        "C01" => c01::run(ctx, st),
        "C04" => c04::run(ctx, st),
        "C05" => c05::run(ctx, st),
        "C06" => c06::run(ctx, st),
        "C07" => c07::run(ctx, st),
        "C08" => c08::run(ctx, st),
        "C09" => c09::run(ctx, st),
        "C10" => c10::run(ctx, st, false),
        "C11" => c10::run(ctx, st, true),
        "C12" => c12::run(ctx, st),
        "C13" => c13::run(ctx, st),
        "C14" => c14::run(ctx, st),
        "C15" => c15::run(ctx, st),
        "C16" => c16::run(ctx, st),
        "C17" => c17::run(ctx, st),
        "C18" => c18::run(ctx, st),
        "C19" => c19::run(ctx, st),
        _ => return false,
    }
    true
}

pub fn replay(prop: &str, case: &Value, st: &mut Stats) -> bool {
    if case.get("kind").and_then(|k| k.as_str()) == Some("primed") {
        // the recorded primers first, then the judged case, in a fresh process
        let prim: Vec<crate::primers::Primer> = case.get("primers").and_then(|p| p.as_array()).map(|a| a.iter().filter_map(crate::primers::Primer::from_json).collect()).unwrap_or_default();
        let _ = crate::core::guard(|| {
            for p in &prim {
                crate::primers::run(p);
            }
        });
        return match case.get("case") {
            Some(c) => replay(prop, c, st),
            None => false,
        };
    }
    if case.get("kind").and_then(|k| k.as_str()) == Some("history") {
        // the recorded steps, back to back, in a fresh process
        return match case.get("steps").and_then(|s| s.as_array()) {
            Some(steps) => !steps.is_empty() && steps.iter().all(|s| replay(prop, s, st)),
            None => false,
        };
    }
    if prop == "C02" || prop == "C03" {
        // composed drivers: the case says which oracle produced it
        if prop == "C03" && c03::replay(case, st) {
            return true;
        }
        if c02::replay_wire(case, st) {
            return true;
        }
        for p in ["C01", "C04", "C05", "C06", "C07", "C08", "C09", "C10", "C11", "C12", "C13", "C14", "C15", "C16", "C17", "C18", "C19"] {
            if replay(p, case, st) {
                return true;
            }
        }
        return false;
    }
    match prop {
        "C01" => c01::replay(case, st),
        "C04" => c04::replay(case, st),
        "C05" => c05::replay(case, st),
        "C06" => c06::replay(case, st),
        "C07" => c07::replay(case, st),
        "C08" => c08::replay(case, st),
        "C09" => c09::replay(case, st),
        "C10" => c10::replay(case, st, false),
        "C11" => c10::replay(case, st, true),
        "C12" => c12::replay(case, st),
        "C13" => c13::replay(case, st),
        "C14" => c14::replay(case, st),
        "C15" => c15::replay(case, st),
        "C16" => c16::replay(case, st),
        "C17" => c17::replay(case, st),
        "C18" => c18::replay(case, st),
        "C19" => c19::replay(case, st),
        _ => false,
    }
}

/// Cold-start monitor (leg `cold`): the `index`-th case of the property's cold list is evaluated as the very first
/// library call of this process (process-wide statics, lazily initialised tables and memos are in their initial
/// state; the epoch, whose raw value 0 coincides with zero-initialised state, is always in the list).
/// Returns the length of the list.
pub fn cold(prop: &str, index: Option<usize>, st: &mut Stats) -> Option<usize> {
    use crate::core::*;
    use crate::pools::G;
    use crate::tok::{Ty, ALL_TY, V};
    st.stratum("cold start: first library call of a fresh process", true);
    macro_rules! go {
        ($list:expr, $check:expr) => {{
            let l = $list;
            if let Some(i) = index {
                if let Some(c) = l.get(i) {
                    st.eval(c, $check);
                }
            }
            Some(l.len())
        }};
    }
    // generic operand grid for the drivers whose cases are (kind, a, b, c, f): small non-negative operands are in
    // every kind's domain (day numbers, microsecond counts, month counts, times of day)
    // (`unit` = 1_000_000 where operands may be Oracle-style dates: whole seconds; also a valid day / month count)
    fn grid<K: Copy>(all: &[K], unit: i64) -> Vec<G<K>> {
        let mut v = vec![];
        for &k in all {
            for (a, b) in [(0i64, 0i64), (0, unit), (unit, 0), (unit, unit)] {
                v.push(G { k, a, b, c: 0, f: 1.0 });
            }
        }
        v
    }
    match prop {
        "C01" => go!(c01::cold_list(), c01::check),
        "C07" => go!(c07::cold_list(), c07::check),
        "C08" => go!(grid(c08::K::ALL, 1_000_000), c08::check),
        "C09" => go!(c09::cold_list(), c09::check),
        "C10" => go!(c10::cold_list(false), c10::check_trunc),
        "C11" => go!(c10::cold_list(true), c10::check_round),
        "C12" => go!(grid(c12::K::ALL, 1), c12::check),
        "C13" => go!(grid(&c13::K::ALL.iter().copied().filter(|k| !k.name().contains("out-of-range")).collect::<Vec<_>>(), 1), c13::check),
        "C14" => go!(grid(c14::K::ALL, 1), c14::check),
        "C16" => go!(grid(c16::K::ALL, 1_000_000), c16::check),
        "C17" => go!(grid(c17::K::ALL, 1_000_000), c17::check),
        "C15" => {
            let mut l = vec![];
            for v in [V::Date(1970, 1, 1), V::Time(0, 0, 0, 0), V::Ts(1970, 1, 1, 0, 0, 0, 0), V::Ora(1970, 1, 1, 0, 0, 0), V::YM(false, 0, 0), V::DT(false, 0, 0, 0, 0, 0), V::Date(1969, 12, 31), V::Ts(1969, 12, 31, 23, 59, 59, 999_999), V::Date(1, 1, 1), V::Ts(9999, 12, 31, 23, 59, 59, 999_999)] {
                l.push(c15::S::Rt(v));
            }
            for v in [V::Ts(2021, 3, 4, 5, 6, 7, 8), V::Ora(2021, 3, 4, 5, 6, 7), V::Date(2021, 3, 4), V::Time(5, 6, 7, 8), V::YM(true, 12, 5), V::DT(false, 3, 5, 6, 7, 8)] {
                l.insert(0, c15::S::DecCanon(v));
            }
            for ty in ALL_TY {
                l.push(c15::S::DecBin(ty, 0));
                l.push(c15::S::DecBin(ty, 1));
                l.push(c15::S::DecJson(ty, "\"1970-01-01 00:00:00.000000\"".to_string()));
            }
            go!(l, c15::check)
        }
        "C19" => go!(["YYYY", "DD", " ", "YYYY-MM-DD", "Month", "x", "", "HH24:MI:SS.FF6", "A.M."].iter().map(|p| c19::C(p)).collect::<Vec<_>>(), c19::check),
        "C05" => {
            let exp = |ty: Ty| match ty {
                Ty::Date => V::Date(1970, 1, 1),
                Ty::Ts => V::Ts(1970, 1, 1, 0, 0, 0, 0),
                _ => V::Ora(1970, 1, 1, 0, 0, 0),
            };
            let mut l = vec![];
            for ty in [Ty::Date, Ty::Ts, Ty::Ora] {
                for (pic, text) in [("YYYY-MM-DD", "1970-01-01"), ("YYYY DDD", "1970 001"), ("DY DD MON YYYY", "thu 1 jan 1970"), ("YYYYMMDD", "19700101")] {
                    l.push(c05::P { via_serde: false, ty, pic, text, expect: Ok(exp(ty)), why: "cold-start" });
                }
            }
            l.push(c05::P { via_serde: false, ty: Ty::Time, pic: "HH24:MI:SS", text: "00:00:00", expect: Ok(V::Time(0, 0, 0, 0)), why: "cold-start" });
            l.push(c05::P { via_serde: false, ty: Ty::YM, pic: "YYYY-MM", text: "0-0", expect: Ok(V::YM(false, 0, 0)), why: "cold-start" });
            l.push(c05::P { via_serde: false, ty: Ty::DT, pic: "DD HH24:MI:SS", text: "0 0:0:0", expect: Ok(V::DT(false, 0, 0, 0, 0, 0)), why: "cold-start" });
            l.push(c05::P { via_serde: true, ty: Ty::Date, pic: "YYYY-MM-DD", text: "1970-01-01", expect: Ok(V::Date(1970, 1, 1)), why: "cold-start" });
            go!(l, c05::check)
        }
        "C04" | "C06" => {
            let vals = [V::Date(1970, 1, 1), V::Ts(1970, 1, 1, 0, 0, 0, 0), V::Ora(1970, 1, 1, 0, 0, 0), V::Time(0, 0, 0, 0), V::Date(1969, 12, 31), V::Ts(1969, 12, 31, 23, 59, 59, 999_999)];
            let pics = ["YYYY-MM-DD", "DAY, DD MONTH YYYY", "YYYY DDD", "D DY W WW", "HH24:MI:SS.FF6", "HH:MI:SS AM"];
            let n = vals.len() * pics.len();
            if let Some(i) = index {
                if i < n {
                    let (v, p) = (vals[i / pics.len()], pics[i % pics.len()]);
                    if let Some(pc) = c04::pic(st, p, None) {
                        if prop == "C04" {
                            st.eval(&c04::F { v, pic: &pc.text, toks: &pc.toks, f: &pc.f, via_display: i % 2 == 0, fail_cap: -1 }, c04::check);
                        } else if i % pics.len() < 3 && v.ty() == Ty::Date {
                            // (date pictures are lossless for Date values only)
                            st.eval(&c06::R { v, pic: &pc.text, f: &pc.f, tag: "", clk: 0, pre: 0 }, c06::check);
                        }
                    }
                }
            }
            Some(n)
        }
        "C18" => {
            let scns = c18::scenarios(st);
            let days = [0i32, -1, 1, 11_016];
            let per = 1 + scns.len();
            let n = days.len() * per;
            if let Some(i) = index {
                if i < n {
                    let (day, k) = (days[i / per], i % per);
                    if k == 0 {
                        st.eval(&c18::K { day, tod: 0, scn: None, scn_idx: 0 }, c18::check);
                    } else {
                        st.eval(&c18::K { day, tod: 1, scn: Some(&scns[k - 1]), scn_idx: k - 1 }, c18::check);
                    }
                }
            }
            Some(n)
        }
        _ => None,
    }
}
