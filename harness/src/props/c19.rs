//! C19 - a picture is accepted exactly when it is a sequence of documented tokens.
use crate::core::*;
use crate::tok::*;
use serde_json::{json, Value};
use sqldatetime::{Error, Formatter};

pub struct C<'a>(pub &'a str);
impl<'a> Case for C<'a> {
    fn to_json(&self) -> Value {
        json!({"kind":"picture","picture": self.0, "len": self.0.len()})
    }
}

/// probe value with pairwise distinct renderings: Thursday, day-of-year 070, week 10, week-of-month 2
pub const PROBE: V = V::Ts(2021, 3, 11, 17, 6, 8, 912345);

pub fn check(st: &mut Stats, c: &C) {
    let p = c.0;
    st.op(Op::F_try_new);
    let real = Formatter::try_new(p);
    let reference = match tokenize_unambiguous(p.as_bytes()) {
        Some(r) => r,
        None => {
            // status depends on whether a lower-case 't' is the 'T' literal: not judged
            st.unspecified += 1;
            return;
        }
    };
    match (&real, &reference) {
        (Ok(_), None) => st.fail(
            "C19/accepts-undocumented-picture",
            format!("picture {:?} accepted, reference tokenizer rejects it", p),
        ),
        (Err(e), Some(t)) => st.fail(
            if t.len() > 30 { "C19/rejects-documented-picture/long" } else { "C19/rejects-documented-picture" },
            format!("picture {:?} rejected ({:?}); reference tokens {:?}", p, e, t),
        ),
        (Err(Error::InvalidFormat(_)), None) => {}
        (Err(e), None) => st.fail("C19/rejection-is-not-a-format-error", format!("picture {:?} -> {:?}", p, e)),
        (Ok(f), Some(toks)) => {
            st.op(Op::F_format);
            let lv = PROBE.to_lib().unwrap();
            match lv.format_with(f) {
                Ok(text) => {
                    if !texts_agree(&text, &PROBE, toks) {
                        let exp = render(&PROBE, toks).unwrap_or_default();
                        let key = if toks.iter().any(|t| matches!(t, Tok::Blank(n) if *n > 255)) {
                            "C19/tokenisation-differs/long-blank-run"
                        } else {
                            "C19/tokenisation-differs"
                        };
                        st.fail(key, format!("picture {:?}: rendered {:?}, reference {:?}", p, trunc(&text), trunc(&exp)));
                    }
                }
                Err(e) => st.fail("C19/accepted-picture-does-not-render", format!("picture {:?}: {}", p, e)),
            }
            // name tokens: the selected style must hold for every month and every weekday, not just the probe's
            if toks.iter().any(|t| matches!(t, Tok::Mon(_) | Tok::Month(_) | Tok::Day(_) | Tok::Dy(_))) {
                for &(m, d) in NAME_PROBES.iter() {
                    let v = V::Ts(2021, m, d, 17, 6, 8, 912_345);
                    st.op(Op::F_format);
                    match v.to_lib().unwrap().format_with(f) {
                        Ok(text) => {
                            if !texts_agree(&text, &v, toks) {
                                let exp = render(&v, toks).unwrap_or_default();
                                st.fail("C19/name-style-differs", format!("picture {:?} for {}: rendered {:?}, reference {:?}", p, v.show(), trunc(&text), trunc(&exp)));
                                break;
                            }
                        }
                        Err(e) => {
                            st.fail("C19/accepted-picture-does-not-render", format!("picture {:?} for {}: {}", p, v.show(), e));
                            break;
                        }
                    }
                }
            }
        }
    }
}

/// one date per month of 2021, together covering all seven weekdays (Sun, Mon, ..., Sat, Sun, ...)
pub const NAME_PROBES: [(u32, u32); 12] = [(1, 3), (2, 1), (3, 2), (4, 7), (5, 6), (6, 4), (7, 3), (8, 8), (9, 6), (10, 5), (11, 10), (12, 9)];

fn trunc(s: &str) -> String {
    if s.len() > 120 {
        format!("{}...[{} bytes]", &s[..100], s.len())
    } else {
        s.to_string()
    }
}

pub const ALPHABET: &[u8] = b"YyMmDdHhIiSsFfAaPpWwTtNnOo124905.-:/ ,;\\Jx";

/// documented token spellings used by the grammar generator
const TOKENS: &[&str] = &[
    "YYYY", "YYY", "YY", "Y", "MM", "MON", "MONTH", "DD", "DDD", "D", "DAY", "DY", "HH", "HH12", "HH24", "MI", "SS", "FF", "FF1", "FF2",
    "FF3", "FF4", "FF5", "FF6", "FF7", "FF8", "FF9", "AM", "PM", "A.M.", "P.M.", "W", "WW", "T", "-", ":", "/", "\\", ",", ".", ";", " ",
    "  ", "   ",
];

fn random_case(rng: &mut Rng, s: &str) -> String {
    let mode = rng.below(4);
    s.chars()
        .map(|ch| {
            if ch == 'T' && s == "T" {
                ch
            } else {
                match mode {
                    0 => ch.to_ascii_uppercase(),
                    1 => ch.to_ascii_lowercase(),
                    2 => {
                        if rng.chance(1, 2) {
                            ch.to_ascii_lowercase()
                        } else {
                            ch.to_ascii_uppercase()
                        }
                    }
                    _ => ch,
                }
            }
        })
        .collect()
}

pub fn run(ctx: &Ctx, st: &mut Stats) {
    for (i, &(m, d)) in NAME_PROBES.iter().enumerate() {
        let n = crate::cal::days_from_civil(2021, m as i64, d as i64);
        assert_eq!(crate::cal::weekday_sun0(n) as usize, i % 7, "NAME_PROBES must walk through the weekdays");
    }
    // 1. every string up to length L over the alphabet
    let maxlen = ctx.tier.pick(2, 4, if ctx.light { 5 } else { 6 });
    let a = ALPHABET.len() as i64;
    for len in 0..=maxlen {
        let total = a.pow(len as u32);
        let name = format!("enum/len{}", len);
        ctx.par(st, &name, true, 0, total, |st, i, _| {
            let mut buf = [0u8; 8];
            let mut x = i;
            for k in 0..len {
                buf[k] = ALPHABET[(x % a) as usize];
                x /= a;
            }
            let s = std::str::from_utf8(&buf[..len]).unwrap();
            st.eval(&C(s), check);
        });
        st.mark_exhaustive(&name, &format!("all {} strings of length {} over the {}-symbol picture alphabet", total, len, a));
    }
    // 2. blank runs of every length 1..=N alone and embedded
    st.stratum("blank-runs", true);
    let maxrun = ctx.tier.pick(300, 700, 2000);
    for n in (1..=maxrun).step_by(ctx.tier.pick(37, 1, 1)) {
        let run = " ".repeat(n);
        st.eval(&C(&run), check);
        st.eval(&C(&format!("YYYY{}DD", run)), check);
        st.eval(&C(&format!("{}mi-ss", run)), check);
        st.eval(&C(&format!("dy,{} {}", run, "HH24")), check);
    }
    for n in [4096usize, 65_535, 65_536, 65_537, 100_000, 131_071, 131_072, 1 << 20] {
        if ctx.tier != Tier::San {
            let run = " ".repeat(n);
            st.eval(&C(&format!("DD{}MM", run)), check);
            // a long run inside pictures of 35, 36 (the documented maximum) and 37 elements: a run is one element whatever its length
            for pairs in [16usize, 17] {
                let head = "DD-".repeat(pairs);
                st.eval(&C(&format!("{}{}MM", head, run)), check);
                st.eval(&C(&format!("{}{}MM{}", head, run, "/")), check);
                st.eval(&C(&format!("MM{}{}", run, head)), check);
            }
        }
    }
    // 3. near-miss spellings
    st.stratum("near-miss", true);
    for p in [
        "HH13", "HH1", "HH2", "HH124", "HH240", "FF0", "FF10", "FF", "F", "FFF", "A.M", "A.M..", "AM.", "P.M", "P.", "A", "P", "a.m", "MONT", "MO",
        "M", "MONTHH", "DA", "da", "Da", "DAM", "DAD", "DAYY", "DYY", "DDDD", "DDDDD", "t", "T", "TT", "tT", "YYYYY", "YYYYYY", "WWW", "WWWW", "J", "Q",
        "RR", "IW", "IYYY", "SSSSS", "SSS", "S", "MIS", "MMM", "MMMM", "H", "HHH", "HH24MI", "\"x\"", "'", "|", "_", "(", "é", "日", "YYYY\u{00a0}MM",
        "YYYY\tMM", "YYYY\nMM", "\0", "YYYY\0", "am", "Am", "aM", "pM", "A.m.", "a.M.", "p.M.", "P.m.", "Y,YYY", "yyyy-mm-ddThh24:mi:ss.ff6", "D Y",
        "DY", "Dy", "dY", "dy", "DAY", "Day", "dAY", "day", "MON", "Mon", "mON", "mon", "MONTH", "Month", "mONTH", "month", "Dd", "dD", "Ddd", "Hh24",
        "hH12", "Mi", "Ss", "Ff3", "Ww", "Yy",
    ] {
        st.eval(&C(p), check);
    }
    // 3b. every non-ASCII character of the Basic Multilingual Plane (and a sample of the other planes), alone and inside
    //     a picture: none belongs to the picture language, whatever its UTF-8 bytes look like after masking or folding
    let cstep = ctx.tier.pick(257, 1, 1);
    ctx.par(st, "every non-ASCII character (BMP; sampled astral), alone / between tokens / leading", true, 0, (0x11_0000 - 0x80) / cstep, |st, i, _| {
        let cp = 0x80 + (i * cstep) as u32;
        if cp > 0xFFFF && cp % 61 != 0 {
            return;
        }
        if let Some(ch) = char::from_u32(cp) {
            let mut b = [0u8; 4];
            let s = ch.encode_utf8(&mut b);
            st.eval(&C(s), check);
            st.eval(&C(&format!("DD{}MM", s)), check);
            st.eval(&C(&format!("{}YYYY", s)), check);
        }
    });
    // 3c. well-known whole pictures in every letter-case / blank-run variation (a shortcut for a popular picture must
    //     still be the token sequence it spells)
    let nv = ctx.tier.pick(60, 120_000, 2_000_000);
    ctx.par(st, "well-known pictures x letter-case and blank-run variations", false, 0, nv, |st, i, rng| {
        let base = crate::spell::WELL_KNOWN[(i % crate::spell::WELL_KNOWN.len() as i64) as usize];
        let v = if i < crate::spell::WELL_KNOWN.len() as i64 { base.to_string() } else { crate::spell::vary_picture(rng, base) };
        st.eval_h(hash64(v.as_bytes()), &C(&v), check);
    });
    // token-count limit: exactly 34..38 tokens of every kind
    for t in TOKENS.iter().filter(|t| !t.starts_with(' ')).step_by(ctx.tier.pick(6, 1, 1)) {
        for n in 30..=40usize {
            // separate the tokens by a punctuation that does not merge: count = 2n-1 tokens, so also test unseparated
            let p: String = std::iter::repeat(*t).take(n).collect::<Vec<_>>().join("");
            st.eval(&C(&p), check);
        }
        for n in 15..=20usize {
            let p: String = std::iter::repeat(*t).take(n).collect::<Vec<_>>().join("-");
            st.eval(&C(&p), check);
            let p: String = std::iter::repeat(*t).take(n).collect::<Vec<_>>().join("  ");
            st.eval(&C(&p), check);
        }
    }
    // 4. random sequences of documented tokens (random letter case), up to 40 tokens
    let n = ctx.tier.pick(300, 300_000, ctx.big(6_000_000, 60_000_000));
    ctx.par(st, "grammar/random-token-sequences", false, 0, n, |st, _, rng| {
        let k = match rng.below(10) {
            0 => 35 + rng.below(4) as usize,
            1 => 30 + rng.below(11) as usize,
            _ => 1 + rng.below(12) as usize,
        };
        let mut p = String::new();
        for _ in 0..k {
            let t = *rng.pick(TOKENS);
            p.push_str(&random_case(rng, t));
            if rng.chance(1, 30) {
                p.push_str(&" ".repeat(1 + rng.below(400) as usize));
            }
        }
        if rng.chance(1, 25) {
            // inject one undocumented character somewhere
            let pos = rng.below(p.len() as u64 + 1) as usize;
            if p.is_char_boundary(pos) {
                p.insert(pos, *rng.pick(&['x', 'J', '0', '5', 'é', '_', 'N', 'O', 'I', 'H', 'F', 'S', 'M', 'A', 'P', '\t']));
            }
        }
        st.eval_h(hash64(p.as_bytes()), &C(&p), check);
    });
    // 5. random strings (printable ASCII + some multi-byte), panic boundary + rejection
    let n = ctx.tier.pick(200, 200_000, ctx.big(3_000_000, 20_000_000));
    ctx.par(st, "random/strings", false, 0, n, |st, _, rng| {
        let len = if rng.chance(1, 50) { rng.below(2000) as usize } else { rng.below(24) as usize };
        let mut p = String::new();
        for _ in 0..len {
            match rng.below(12) {
                0 => p.push(*rng.pick(&['é', '日', '\u{1F600}', '\u{0}', '\u{7f}', '\u{a0}'])),
                1..=3 => p.push((0x20 + rng.below(0x5f) as u8) as char),
                _ => p.push(*rng.pick(ALPHABET) as char),
            }
        }
        st.eval_h(hash64(p.as_bytes()), &C(&p), check);
    });
}

pub fn replay(v: &Value, st: &mut Stats) -> bool {
    if jstr(v, "kind") != "picture" {
        return false;
    }
    let p = jstr(v, "picture");
    st.eval(&C(&p), check);
    true
}
