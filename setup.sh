#!/bin/sh
# Builds the monitor harness against /repo (offline). Sanitizer builds happen on demand in ./check.
set -e
cd "$(dirname "$0")/harness"
export CARGO_NET_OFFLINE=true
cargo build --offline --profile chk
cargo build --offline --profile rel
cd ../harness-nofeat && cargo build --offline --release
