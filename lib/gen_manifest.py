#!/usr/bin/env python3
"""Regenerates MANIFEST.json from lib/plan.py + lib/claims.py (run by hand after editing them)."""
import json, os, sys
ROOT = os.path.dirname(os.path.dirname(os.path.abspath(__file__)))
sys.path.insert(0, os.path.join(ROOT, "lib"))
from plan import PLAN
from claims import CLAIMS, NOT_APPLICABLE, HOOK_COMMITS
checks = []
for pid in sorted(CLAIMS):
    c = CLAIMS[pid]
    checks.append({
        "property_id": pid,
        "quick_cmd": "./check %s quick" % pid,
        "thorough_cmd": "./check %s thorough" % pid,
        "evidence_file": "/verif/evidence/%s.json" % pid,
        "replay_cmd_template": "./check %s --replay {path}" % pid,
        "engine": "sqlverif",
        "level_claimed": {"category": "exploration", "text": c["text"], "design_ref": c["design_ref"]},
        "level_note": c["note"],
        "technique": c["technique"],
    })
m = {
    "version": 1,
    "setup_cmd": "./setup.sh",
    "hooks": {
        "guard": "cargo feature verif-hooks (off by default)",
        "enable": "the harness crate depends on /repo by path with features oracle,serde,verif-hooks; cargo rebuilds /repo's working tree for every check",
        "baseline_off_cmd": "cd /repo && cargo test --workspace --no-fail-fast --offline",
        "source_commits": HOOK_COMMITS,
        "add_only": True,
    },
    "engines": [{"name": "sqlverif", "path": "/verif/harness", "serves_properties": sorted(CLAIMS),
                 "kind_free_text": "Rust monitor harness (reference-model oracles, range monitor, panic boundary, injected clock) run natively in two profiles and under Miri / AddressSanitizer / valgrind; driven by ./check"}],
    "checks": checks,
    "notes": "Runtime monitoring only: every verdict is an oracle observing executions of the real library. Exit 2 + INCONCLUSIVE = nothing decided (never folded into held/violated). known_findings.json lists the one open finding (C11 round_century on century-end years) and the repaired defects.",
    "not_applicable": [{"property_id": k, "reason": v} for k, v in sorted(NOT_APPLICABLE.items())],
}
json.dump(m, open(os.path.join(ROOT, "MANIFEST.json"), "w"), indent=1)
print("MANIFEST.json: %d checks, %d not_applicable" % (len(checks), len(m["not_applicable"])))
