//! Per-type boundary pools (raw counts) and the generic (kind, a, b, f) case used by the arithmetic monitors.
use crate::cal::{days_from_civil, leap};
use crate::core::*;
use serde_json::{json, Value};

/// generates a Copy enum with stable names for replay files
#[macro_export]
macro_rules! kinds {
    ($name:ident { $($id:ident = $s:expr),* $(,)? }) => {
        #[derive(Clone, Copy, Debug, PartialEq, Eq, Hash)]
        pub enum $name { $($id),* }
        impl $name {
            pub fn name(self) -> &'static str { match self { $($name::$id => $s),* } }
            pub fn from_name(s: &str) -> Option<$name> { match s { $($s => Some($name::$id),)* _ => None } }
            #[allow(dead_code)]
            pub const ALL: &'static [$name] = &[$($name::$id),*];
        }
    };
}

/// generic case: an operation kind with up to three integer operands and one float operand
#[derive(Clone, Copy, Debug)]
pub struct G<K: Copy> {
    pub k: K,
    pub a: i64,
    pub b: i64,
    pub c: i64,
    pub f: f64,
}
impl<K: Copy> G<K> {
    pub fn ab(k: K, a: i64, b: i64) -> Self {
        G { k, a, b, c: 0, f: 0.0 }
    }
    pub fn abc(k: K, a: i64, b: i64, c: i64) -> Self {
        G { k, a, b, c, f: 0.0 }
    }
    pub fn af(k: K, a: i64, f: f64) -> Self {
        G { k, a, b: 0, c: 0, f }
    }
    pub fn hash(&self, kid: u64) -> u64 {
        mix(mix(mix(kid, self.a as u64), mix(self.b as u64, self.c as u64)), self.f.to_bits())
    }
}
pub fn g_json(kind: &str, a: i64, b: i64, c: i64, f: f64) -> Value {
    json!({"kind": kind, "a": a, "b": b, "c": c, "f": f64j(f), "f_approx": if f.is_finite() { json!(f) } else { json!(format!("{}", f)) }})
}

/// days around every month end of year `y` (last two days of the month, first two of the next), clamped to the range
pub fn month_end_days(y: i64) -> Vec<i64> {
    let mut v = vec![];
    for m in 1..=12i64 {
        let first = crate::cal::days_from_civil(y, m, 1);
        let last = first + crate::cal::dim(y, m as u32) as i64 - 1;
        for d in [last - 2, last - 1, last, last + 1, last + 2] {
            if (MIN_DAY as i64..=MAX_DAY as i64).contains(&d) {
                v.push(d);
            }
        }
    }
    v
}

pub fn date_pool() -> Vec<i32> {
    let mut v: Vec<i64> = vec![];
    for k in 0..=3 {
        v.push(MIN_DAY as i64 + k);
        v.push(MAX_DAY as i64 - k);
    }
    v.extend([MIN_DAY as i64 + 6, MIN_DAY as i64 + 7, MIN_DAY as i64 + 30, MIN_DAY as i64 + 31, MIN_DAY as i64 + 364, MIN_DAY as i64 + 365]);
    v.extend([-2, -1, 0, 1, 2, 365, -365, 10_957, 11_016]);
    for y in [1i64, 2, 4, 99, 100, 101, 400, 1582, 1600, 1899, 1900, 1901, 1950, 1951, 1969, 1970, 1999, 2000, 2001, 2020, 2021, 2024, 2026, 2050, 2051,
              2100, 5000, 9899, 9900, 9901, 9949, 9950, 9951, 9996, 9998, 9999] {
        for (m, d) in [(1, 1), (1, 4), (1, 31), (2, 28), (3, 1), (3, 31), (4, 30), (5, 15), (5, 16), (6, 30), (7, 1), (8, 15), (8, 16), (9, 30), (10, 1), (11, 15), (11, 16), (12, 1), (12, 28), (12, 31)] {
            v.push(days_from_civil(y, m, d));
        }
        if leap(y) {
            v.push(days_from_civil(y, 2, 29));
        }
    }
    let mut v: Vec<i32> = v.into_iter().filter(|n| (MIN_DAY as i64..=MAX_DAY as i64).contains(n)).map(|n| n as i32).collect();
    v.sort();
    v.dedup();
    v
}

pub const H: i64 = 3_600_000_000;
pub const MI: i64 = 60_000_000;
pub const S: i64 = 1_000_000;

/// critical times of day in microseconds
pub fn time_pool() -> Vec<i64> {
    let mut v = vec![
        0, 1, 999_999, S, S + 1, 29 * S + 999_999, 30 * S, 59 * S + 999_999, MI, 29 * MI + 59 * S + 999_999, 30 * MI, 59 * MI + 59 * S + 999_999, H,
        11 * H + 59 * MI + 59 * S + 999_999, 12 * H, 12 * H + 1, 12 * H + 30 * MI, 13 * H + 29 * MI + 59 * S + 999_999, 13 * H + 30 * MI, 23 * H,
        23 * H + 29 * MI + 59 * S + 999_999, 23 * H + 30 * MI, 23 * H + 59 * MI, 23 * H + 59 * MI + 29 * S + 999_999, 23 * H + 59 * MI + 30 * S, 23 * H + 59 * MI + 59 * S,
        DAY_US - 2, DAY_US - 1, 6 * H, 17 * H + 6 * MI + 8 * S + 912_345, 5 * H + 59 * MI + 30 * S, 0 * H + 59 * MI + 30 * S + 500_000,
    ];
    v.sort();
    v.dedup();
    v
}

/// magnitudes at powers of two counted in *every* unit (milliseconds, seconds, minutes, hours, days), +- one
/// microsecond and +- one unit: 32-bit "whole seconds / minutes" fast paths break exactly there (2^31 s = 24855 d
/// 03:14:08, 2^32 s = 49710 d 06:28:16, 2^32 min = 2982616 d 04:16, Y2038, Y2106 ...).
pub fn unit_pow2() -> Vec<i64> {
    let mut v = vec![];
    for (unit, lo, hi) in [(1_000i64, 28u32, 54u32), (1_000_000, 18, 44), (60_000_000, 12, 38), (3_600_000_000, 6, 32), (DAY_US, 2, 27)] {
        for j in lo..hi {
            let base = match unit.checked_mul(1i64 << j) {
                Some(b) => b,
                None => continue,
            };
            for e in [-unit, -1, 0, 1, unit - 1, unit, 250_000] {
                if let Some(x) = base.checked_add(e) {
                    v.push(x);
                }
            }
        }
    }
    v.sort();
    v.dedup();
    v
}

/// times of day at bit-structured positions: k * 2^j (+-1) microseconds after midnight and before the next
/// midnight. Narrowing casts and shifts in day/time splitting code go wrong exactly at such values.
pub fn bit_times() -> Vec<i64> {
    let mut v = vec![];
    for j in 0..37u32 {
        for k in 1..=24i64 {
            let x = k << j;
            for e in [-1i64, 0, 1] {
                v.push(x + e);
                v.push(DAY_US - x + e);
            }
        }
    }
    // powers of two counted in seconds and minutes
    for j in 0..17u32 {
        for e in [-1i64, 0, 1, 999_999, 1_000_000] {
            v.push((1i64 << j) * 1_000_000 + e);
            v.push(DAY_US - (1i64 << j) * 1_000_000 + e);
            if j < 11 {
                v.push((1i64 << j) * 60_000_000 + e);
            }
        }
    }
    v.retain(|t| (0..DAY_US).contains(t));
    v.sort();
    v.dedup();
    v
}

pub fn ts_pool() -> Vec<i64> {
    let mut v = vec![];
    let times = time_pool();
    for d in date_pool() {
        for &t in times.iter().step_by(3) {
            v.push(d as i64 * DAY_US + t);
        }
        v.push(d as i64 * DAY_US);
        v.push(d as i64 * DAY_US + DAY_US - 1);
        v.push(d as i64 * DAY_US + 12 * H);
    }
    for k in 10..58 {
        v.extend([(1i64 << k) - 1, 1i64 << k, (1i64 << k) + 1, -(1i64 << k) - 1, -(1i64 << k), -(1i64 << k) + 1]);
    }
    for x in unit_pow2() {
        v.push(x);
        v.push(-x);
    }
    v.extend([TS_MIN, TS_MIN + 1, TS_MAX, TS_MAX - 1, -1, 0, 1, (1i64 << 53) - 1, 1i64 << 53, (1i64 << 53) + 1, -(1i64 << 53), -(1i64 << 53) - 1, ORA_MAX, ORA_MAX + 1, ORA_MAX - 1]);
    v.retain(|x| (TS_MIN..=TS_MAX).contains(x));
    v.sort();
    v.dedup();
    v
}

pub fn ym_pool() -> Vec<i32> {
    let mut v: Vec<i64> = vec![0, 1, 2, 11, 12, 13, 23, 24, 25, 40, 1199, 1200, 1201, 4800, 119_987, 119_988, 119_989, 12 * 9998, 12 * 9998 + 11, 1_000_000, 12 * 177_999_999 + 11,
        YM_LIM as i64 - 12, YM_LIM as i64 - 1, YM_LIM as i64, 1 << 30, (1 << 30) + 1, 1_068_000_000, 1_068_000_001];
    for k in 2..31 {
        v.extend([(1i64 << k) - 1, 1i64 << k, (1i64 << k) + 1]);
    }
    let neg: Vec<i64> = v.iter().map(|x| -x).collect();
    v.extend(neg);
    let mut v: Vec<i32> = v.into_iter().filter(|x| x.abs() <= YM_LIM as i64).map(|x| x as i32).collect();
    v.sort();
    v.dedup();
    v
}

pub fn dt_pool() -> Vec<i64> {
    let mut v: Vec<i64> = vec![0, 1, 2, 999_999, S, S + 1, MI - 1, MI, H - 1, H, 12 * H, DAY_US - 1, DAY_US, DAY_US + 1, 2 * DAY_US, 3 * DAY_US + 12 * H, 7 * DAY_US, 31 * DAY_US,
        32 * DAY_US, 33 * DAY_US - 1, 365 * DAY_US, 366 * DAY_US, 3_652_058 * DAY_US, 3_652_058 * DAY_US + DAY_US - 1, 3_652_059 * DAY_US, TS_MAX, TS_MAX - TS_MIN, TS_MAX - TS_MIN + 1,
        -TS_MIN, (1 << 53) - 1, 1 << 53, (1 << 53) + 1, 1 << 62, 99_999_999 * DAY_US + DAY_US - 1, DT_LIM - DAY_US, DT_LIM - 1, DT_LIM, 4_320_000_000_000_000_000, 4_320_000_000_000_000_001];
    for k in 2..63 {
        v.extend([(1i64 << k) - 1, 1i64 << k, (1i64 << k) + 1]);
    }
    v.extend(unit_pow2());
    let mut p = 10i64;
    while p < DT_LIM {
        v.extend([p - 1, p, p + 1]);
        p = match p.checked_mul(10) {
            Some(x) => x,
            None => break,
        };
    }
    let neg: Vec<i64> = v.iter().map(|x| -x).collect();
    v.extend(neg);
    v.retain(|x| x.abs() <= DT_LIM);
    v.sort();
    v.dedup();
    v
}

pub fn i32_pool() -> Vec<i32> {
    let mut v = vec![i32::MIN, i32::MIN + 1, -(1 << 30), -3_652_059, -3_652_058, -3_652_057, -2_932_897, -719_163, -366, -365, -31, -30, -7, -2, -1, 0, 1, 2, 7, 28, 29, 30, 31, 365, 366,
        719_162, 719_163, 2_932_896, 2_932_897, 3_652_057, 3_652_058, 3_652_059, 1 << 30, i32::MAX - 1, i32::MAX];
    v.sort();
    v.dedup();
    v
}

pub fn f64_pool() -> Vec<f64> {
    let mut v = vec![0.0, -0.0, 1.0, -1.0, 0.5, -0.5, 2.0, -2.0, 3.0, 7.0, 10.0, -10.0, 12.0, 0.1, 0.01, 1.0 / 3.0, 2.0 / 3.0, 0.999_999_999_999, 1.000_000_000_001, 1.5, 2.5, -2.5,
        1e-300, -1e-300, 1e300, -1e300, 1e9, -1e9, 1e18, 3_652_058.0, 3_652_058.999, 3_652_059.0, -3_652_058.999, 2_932_896.5, 0.5 / 86_400e6, 1.0 / 86_400e6, 1.5 / 86_400e6, 0.49 / 86_400e6,
        f64::MIN_POSITIVE, -f64::MIN_POSITIVE, 5e-324, -5e-324, f64::MAX, f64::MIN, f64::EPSILON, 9_007_199_254_740_991.0, 9_007_199_254_740_992.0, 9_007_199_254_740_993.0,
        f64::INFINITY, f64::NEG_INFINITY, f64::NAN, 49.0, 98.0, 103.0, 107.0, 1e15, 1e16, 1e-15, 86_400.0, 1.0 / 86_400.0, 1.0 / 24.0, 0.25, 0.75, 100_000_000.0, 178_000_000.0];
    for k in [-60i32, -53, -52, -30, -10, -3, -1, 1, 3, 10, 30, 52, 53, 60, 63, 64] {
        v.push((2f64).powi(k));
        v.push(-(2f64).powi(k));
    }
    // the doubles next to "nice" numbers (one and two steps either side): 1 - 2^-53 is not 1
    for b in [1.0f64, 0.5, 2.0, 24.0, 1.0 / 24.0, 1.0 / 1440.0, 1.0 / 86_400.0, 86_400.0, 365.0, 0.25, 1e-6 / 86_400.0] {
        for s in [-2i64, -1, 1, 2] {
            let x = f64::from_bits((b.to_bits() as i64 + s) as u64);
            v.push(x);
            v.push(-x);
        }
    }
    // a day (or an hour, a second) less or more half a microsecond, expressed in days
    for b in [1.0f64, 1.0 / 24.0, 1.0 / 86_400.0, 2.0, 100.0] {
        for e in [-0.6f64, -0.5, -0.4, 0.4, 0.5, 0.6] {
            v.push(b + e / 86_400e6);
            v.push(-(b + e / 86_400e6));
        }
    }
    v
}

/// a random finite f64 with a random exponent in a useful band, or a "nice" number
pub fn rand_f64(rng: &mut Rng) -> f64 {
    match rng.below(12) {
        // whole seconds / minutes / hours / milliseconds of any magnitude expressed in days (how users build such offsets)
        10 => {
            let per_day = *rng.pick(&[86_400.0f64, 1_440.0, 24.0, 86_400_000.0]);
            let (e1, e2) = (20 + rng.below(22), 20 + rng.below(22));
            let k = rng.range_i64(-(1i64 << e1), 1i64 << e2);
            k as f64 / per_day
        }
        // a whole number of seconds plus half a second, a few microseconds off, expressed in days
        11 => {
            let (e1, e2) = (10 + rng.below(30), 10 + rng.below(30));
            let k = rng.range_i64(-(1i64 << e1), 1i64 << e2);
            (k as f64 * 1e6 + 500_000.0 + rng.range_i64(-30, 30) as f64) / 86_400e6
        }
        0 => *rng.pick(&f64_pool()),
        1 => (rng.range_i64(-1000, 1000)) as f64,
        2 => (rng.range_i64(-100_000, 100_000)) as f64 / 1000.0,
        3 => (2f64).powi(rng.range_i64(-70, 70) as i32) * if rng.chance(1, 2) { -1.0 } else { 1.0 },
        4 => f64::from_bits(rng.next()), // any bit pattern (may be NaN/inf)
        _ => {
            let m = (rng.next() >> 11) as f64 / (1u64 << 53) as f64 + 0.5;
            let e = rng.range_i64(-40, 40) as i32;
            let s = if rng.chance(1, 2) { -1.0 } else { 1.0 };
            s * m * (2f64).powi(e)
        }
    }
}
