//! C05 - parsing returns the value the text denotes and rejects text that denotes none.
use crate::cal::{cal, dim, from_doy, leap};
use crate::core::*;
use crate::props::c04::rand_value;
use crate::spell::*;
use crate::tok::*;
use serde_json::{json, Value};
use sqldatetime::Formatter;

pub const CLOCK: Clock = Clock { year: 2021, month: 3 };
pub fn pin_clock() {
    sqldatetime::verif_hooks::set_clock(CLOCK.year, CLOCK.month, 11, 17, 6, 8, 912_345);
}

#[derive(Clone)]
pub struct P<'a> {
    /// true: the text goes through the type's serde `Deserialize` (a JSON string); the picture must be the type's fixed layout
    pub via_serde: bool,
    pub ty: Ty,
    pub pic: &'a str,
    pub text: &'a str,
    pub expect: Result<V, ()>,
    /// classification used in finding keys
    pub why: &'a str,
}
impl<'a> Case for P<'a> {
    fn to_json(&self) -> Value {
        json!({"kind": "parse", "via_serde": self.via_serde, "type": self.ty.name(), "picture": self.pic, "text": self.text, "why": self.why,
               "expect": match &self.expect { Ok(v) => v.to_json(), Err(()) => json!("error") },
               "expect_show": match &self.expect { Ok(v) => v.show(), Err(()) => "an error".to_string() }})
    }
}
fn op_of(ty: Ty) -> Op {
    match ty {
        Ty::Date => Op::D_parse,
        Ty::Time => Op::T_parse,
        Ty::Ts => Op::TS_parse,
        Ty::Ora => Op::O_parse,
        Ty::YM => Op::YM_parse,
        Ty::DT => Op::DT_parse,
    }
}
pub fn obs_lv(st: &mut Stats, op: Op, lv: &LV) {
    match lv {
        LV::Date(x) => st.obs(op, x),
        LV::Time(x) => st.obs(op, x),
        LV::Ts(x) => st.obs(op, x),
        LV::Ora(x) => st.obs(op, x),
        LV::YM(x) => st.obs(op, x),
        LV::DT(x) => st.obs(op, x),
    }
}

pub fn check(st: &mut Stats, c: &P) {
    pin_clock();
    let r = if c.via_serde {
        use sqldatetime::{Date, IntervalDT, IntervalYM, OracleDate, Time, Timestamp};
        st.op(Op::S_json_de);
        let js = serde_json::to_string(c.text).expect("a JSON string");
        let e = |e: serde_json::Error| sqldatetime::Error::ParseError(e.to_string());
        match c.ty {
            Ty::Date => serde_json::from_str::<Date>(&js).map(LV::Date).map_err(e),
            Ty::Time => serde_json::from_str::<Time>(&js).map(LV::Time).map_err(e),
            Ty::Ts => serde_json::from_str::<Timestamp>(&js).map(LV::Ts).map_err(e),
            Ty::Ora => serde_json::from_str::<OracleDate>(&js).map(LV::Ora).map_err(e),
            Ty::YM => serde_json::from_str::<IntervalYM>(&js).map(LV::YM).map_err(e),
            Ty::DT => serde_json::from_str::<IntervalDT>(&js).map(LV::DT).map_err(e),
        }
    } else {
        st.op(Op::F_try_new);
        let f = match Formatter::try_new(c.pic) {
            Ok(f) => f,
            Err(e) => {
                if c.expect.is_ok() {
                    st.fail("C05/picture-rejected", format!("picture {:?}: {:?}", c.pic, e));
                }
                return;
            }
        };
        st.op(op_of(c.ty));
        st.op(Op::F_parse);
        parse_as(c.ty, &f, c.text)
    };
    if let Ok(lv) = &r {
        obs_lv(st, op_of(c.ty), lv);
    }
    match (&c.expect, r) {
        (Ok(v), Ok(lv)) => {
            let got = lv.to_v();
            let same = match v.to_lib() {
                Some(e) => e.raw() == lv.raw(),
                None => false,
            };
            if !same {
                st.fail(format!("C05/parse/wrong-value/{}/{}", c.ty.name(), c.why), format!("{:?} under {:?} as {}: got {} expected {}", c.text, c.pic, c.ty.name(), got.show(), v.show()));
            }
        }
        (Ok(v), Err(e)) => st.fail(format!("C05/parse/rejects-valid-text/{}/{}", c.ty.name(), c.why), format!("{:?} under {:?} as {}: {:?}; it denotes {}", c.text, c.pic, c.ty.name(), e, v.show())),
        (Err(()), Ok(lv)) => st.fail(format!("C05/parse/accepts-text-that-denotes-nothing/{}/{}", c.ty.name(), c.why), format!("{:?} under {:?} as {}: got {} ; an error is required", c.text, c.pic, c.ty.name(), lv.to_v().show())),
        (Err(()), Err(_)) => {}
    }
}

fn ev(st: &mut Stats, ty: Ty, pic: &str, text: &str, expect: Result<V, ()>, why: &str) {
    st.eval(&P { via_serde: false, ty, pic, text, expect, why }, check);
}
fn evh(st: &mut Stats, ty: Ty, pic: &str, text: &str, expect: Result<V, ()>, why: &str) {
    let h = mix(mix(hash64(pic.as_bytes()), hash64(text.as_bytes())), ty as u64);
    st.eval_h(h, &P { via_serde: false, ty, pic, text, expect, why }, check);
    // the serde text form is the same reading under the type's fixed layout
    if pic == crate::props::c15::layout(ty) {
        st.eval_h(mix(h, 0x5e), &P { via_serde: true, ty, pic, text, expect, why }, check);
    }
}

/// `ev` whose arguments are only built when this shard evaluates the case (sanitizer slices run 1/96 of the cases;
/// building ten thousand strings per shard costs minutes under Miri)
macro_rules! evl {
    ($st:expr, $ty:expr, $pic:expr, $text:expr, $exp:expr, $why:expr) => {
        if $st.next_is_mine() {
            ev($st, $ty, $pic, $text, $exp, $why)
        } else {
            $st.skip_one()
        }
    };
}

/// builds the expected value of a date-bearing type from (y,m,d) + zero time
fn date_as(ty: Ty, y: i32, m: u32, d: u32) -> V {
    match ty {
        Ty::Date => V::Date(y, m, d),
        Ty::Ts => V::Ts(y, m, d, 0, 0, 0, 0),
        _ => V::Ora(y, m, d, 0, 0, 0),
    }
}

pub fn run(ctx: &Ctx, st: &mut Stats) {
    cal();
    // (a) every (year, day-of-year 0..=367)
    let ystride = ctx.tier.pick(3301, 1, 1);
    ctx.par(st, "(a) every (year 1..=9999, day-of-year 0..=367)", true, 0, 9999 / ystride * 368, |st, i, _| {
        let y = 1 + (i / 368) * ystride;
        let n = (i % 368) as u32;
        if ctx.tier == Tier::San && n % 5 != 0 && n > 1 && n < 365 {
            return;
        }
        let len = if leap(y) { 366 } else { 365 };
        let md = if n >= 1 && n <= len { from_doy(y, n) } else { None };
        let ty = [Ty::Date, Ty::Ts, Ty::Ora][(i % 3) as usize];
        let exp = md.map(|(m, d)| date_as(ty, y as i32, m, d)).ok_or(());
        let why = if md.is_some() { "day-of-year" } else { "day-of-year-out-of-domain" };
        ev(st, ty, "YYYY DDD", &format!("{:04} {:03}", y, n), exp, why);
        ev(st, Ty::Date, "YYYY-DDD", &format!("{}-{}", y, n), md.map(|(m, d)| V::Date(y as i32, m, d)).ok_or(()), why);
        if let Some((m, d)) = md {
            // redundant month/day: consistent, then each one off
            ev(st, Ty::Date, "YYYY-MM-DD DDD", &format!("{:04}-{:02}-{:02} {:03}", y, m, d, n), Ok(V::Date(y as i32, m, d)), "day-of-year-consistent");
            ev(st, Ty::Date, "DDD MON YYYY", &format!("{:03} {} {:04}", n, &MONTHS[m as usize - 1][..3], y), Ok(V::Date(y as i32, m, d)), "day-of-year-consistent");
            let (m2, d2) = from_doy(y, if n < len { n + 1 } else { n - 1 }).unwrap();
            ev(st, Ty::Date, "YYYY-MM-DD DDD", &format!("{:04}-{:02}-{:02} {:03}", y, m2, d2, n), Err(()), "day-of-year-disagrees-with-month-day");
            if m2 != m {
                ev(st, Ty::Date, "DDD MON YYYY", &format!("{:03} {} {:04}", n, &MONTHS[m2 as usize - 1][..3], y), Err(()), "day-of-year-disagrees-with-month");
            }
            ev(st, Ty::Date, "DD DDD YYYY", &format!("{:02} {:03} {:04}", if d < 28 { d + 1 } else { d - 1 }, n, y), Err(()), "day-of-year-disagrees-with-day");
            // two coordinated deviations: a day past the end of the previous month (or day 0 of the next) that would "roll"
            // onto exactly this day-of-year - still not a date
            if d <= 3 && m >= 2 {
                let pm = m - 1;
                let text = format!("{:04}-{:02}-{:02} {:03}", y, pm, dim(y, pm) + d, n);
                ev(st, [Ty::Date, Ty::Ts, Ty::Ora][(n % 3) as usize], "YYYY-MM-DD DDD", &text, Err(()), "day-beyond-month-length-rolling-onto-the-day-of-year");
            }
            if d == dim(y, m) && m <= 11 {
                ev(st, Ty::Date, "YYYY-MM-DD DDD", &format!("{:04}-{:02}-00 {:03}", y, m + 1, n), Err(()), "day-zero-rolling-onto-the-day-of-year");
            }
        }
    });
    if ystride == 1 {
        st.mark_exhaustive("(a) every (year 1..=9999, day-of-year 0..=367)", "all 9999 x 368 (year, day-of-year) pairs, with consistent and inconsistent redundant month/day");
    }
    // (a2) every (year, month, day 27..=32) for the three date-bearing types: month lengths and leap rule on each type's own path
    ctx.par(st, "(a2) every (year, month, day 27..=32) x Date,Timestamp,OracleDate", true, 0, (9999 / ystride) * 12 * 6, |st, i, _| {
        let y = 1 + (i / 72) * ystride;
        let m = (i / 6 % 12 + 1) as u32;
        let d = (27 + i % 6) as u32;
        let ok = d <= dim(y, m);
        let why = if ok { "month-end" } else { "day-beyond-month-length" };
        ev(st, Ty::Date, "YYYY-MM-DD", &format!("{:04}-{:02}-{:02}", y, m, d), if ok { Ok(V::Date(y as i32, m, d)) } else { Err(()) }, why);
        ev(st, Ty::Ts, "YYYY-MM-DD HH24:MI:SS.FF", &format!("{:04}-{:02}-{:02} 12:30:45.5", y, m, d), if ok { Ok(V::Ts(y as i32, m, d, 12, 30, 45, 500_000)) } else { Err(()) }, why);
        ev(st, Ty::Ora, "DD.MM.YYYY HH24:MI:SS", &format!("{:02}.{:02}.{:04} 23:59:59", d, m, y), if ok { Ok(V::Ora(y as i32, m, d, 23, 59, 59)) } else { Err(()) }, why);
        ev(st, Ty::Ts, "DD MON YYYY", &format!("{} {} {}", d, &MONTHS[m as usize - 1][..3], y), if ok { Ok(V::Ts(y as i32, m, d, 0, 0, 0, 0)) } else { Err(()) }, why);
    });
    if ystride == 1 {
        st.mark_exhaustive("(a2) every (year, month, day 27..=32) x Date,Timestamp,OracleDate", "all 9999 years x 12 months x days 27..=32 through Date, Timestamp and OracleDate pictures");
    }
    // (b) every date through several pictures (exact spelling + weekday cross-check)
    let dstride = ctx.tier.pick(20_011, ctx.q(11, 1), 1);
    ctx.par(st, "(b) every date through 6 pictures", true, 0, (N_DAYS as i64 + dstride - 1) / dstride, |st, i, _| {
        let n = MIN_DAY as i64 + i * dstride;
        let (y, m, d) = cal().of(n as i32);
        let w = crate::cal::weekday_sun0(n) as usize;
        let v = V::Date(y, m, d);
        let doy = crate::cal::doy(y as i64, m, d);
        ev(st, Ty::Date, "YYYY-MM-DD", &format!("{:04}-{:02}-{:02}", y, m, d), Ok(v), "exact");
        ev(st, Ty::Date, "DD/MM/YYYY", &format!("{}/{}/{}", d, m, y), Ok(v), "unpadded");
        ev(st, Ty::Date, "YYYYMMDD", &format!("{:04}{:02}{:02}", y, m, d), Ok(v), "exact");
        ev(st, Ty::Date, "DAY, DD MONTH YYYY", &format!("{}, {:02} {} {:04}", DAYS[w], d, MONTHS[m as usize - 1], y), Ok(v), "names");
        ev(st, Ty::Date, "DY YYYY.MM.DD DDD", &format!("{} {:04}.{:02}.{:02} {:03}", DAYS[w][..3].to_uppercase(), y, m, d, doy), Ok(v), "names");
        ev(st, Ty::Date, "D YYYY MON DD", &format!("{} {:04} {} {:02}", w + 1, y, MONTHS[m as usize - 1][..3].to_lowercase(), d), Ok(v), "names");
        // weekday one off must be rejected
        ev(st, Ty::Date, "DAY, DD MONTH YYYY", &format!("{}, {:02} {} {:04}", DAYS[(w + 1) % 7], d, MONTHS[m as usize - 1], y), Err(()), "weekday-disagrees-with-date");
        ev(st, Ty::Date, "D YYYY MON DD", &format!("{} {:04} {} {:02}", (w + 6) % 7 + 1, y, &MONTHS[m as usize - 1][..3], d), Err(()), "weekday-disagrees-with-date");
        // day beyond the month's length
        if d == dim(y as i64, m) {
            ev(st, Ty::Date, "YYYY-MM-DD", &format!("{:04}-{:02}-{:02}", y, m, d + 1), Err(()), "day-beyond-month-length");
        }
    });
    if dstride == 1 {
        st.mark_exhaustive("(b) every date through 6 pictures", "all 3,652,059 dates x 6 pictures + weekday-off-by-one and day-beyond-month perturbations");
    }
    // (c) every second of the day, 24-hour and 12-hour+meridian, both orders
    let sstride = ctx.tier.pick(1801, 1, 1);
    ctx.par(st, "(c) every second of the day through 5 pictures", true, 0, 86_400 / sstride, |st, i, _| {
        let s = i * sstride;
        let (h, mi, sec) = ((s / 3600) as u32, (s / 60 % 60) as u32, (s % 60) as u32);
        let v = V::Time(h, mi, sec, 0);
        let h12 = if h % 12 == 0 { 12 } else { h % 12 };
        let (mer, merd) = if h < 12 { ("AM", "a.m.") } else { ("pm", "P.M.") };
        ev(st, Ty::Time, "HH24:MI:SS", &format!("{:02}:{:02}:{:02}", h, mi, sec), Ok(v), "exact");
        ev(st, Ty::Time, "HH:MI:SS AM", &format!("{}:{}:{} {}", h12, mi, sec, mer), Ok(v), "12-hour");
        ev(st, Ty::Time, "AM HH12.MI.SS", &format!("{} {:02}.{:02}.{:02}", mer, h12, mi, sec), Ok(v), "12-hour-meridian-first");
        ev(st, Ty::Time, "P.M. HH MI SS", &format!("{} {:02} {:02} {:02}", merd, h12, mi, sec), Ok(v), "12-hour-meridian-first");
        ev(st, Ty::Time, "HH24MISS", &format!("{:02}{:02}{:02}", h, mi, sec), Ok(v), "exact");
        ev(st, Ty::Ts, "YYYY-MM-DD HH:MI:SS P.M.", &format!("1969-12-31 {:02}:{:02}:{:02} {}", h12, mi, sec, merd), Ok(V::Ts(1969, 12, 31, h, mi, sec, 0)), "12-hour");
        ev(st, Ty::DT, "DD HH24:MI:SS", &format!("-3 {:02}:{:02}:{:02}", h, mi, sec), Ok(V::DT(true, 3, h, mi, sec, 0)), "exact");
    });
    if sstride == 1 {
        st.mark_exhaustive("(c) every second of the day through 5 pictures", "all 86,400 seconds: 24-hour, 12-hour+meridian in both field orders, dotted meridian, unseparated");
    }
    // (d) fraction rounding / carry chain
    st.stratum("(d) fraction rounding and carry", true);
    let tails: &[(&str, &str, u32)] = &[("4", "FF7", 0), ("5", "FF7", 1), ("49", "FF8", 0), ("50", "FF8", 1), ("499", "FF9", 0), ("500", "FF9", 1), ("999", "FF", 1), ("000", "FF9", 0), ("9995", "FF9", 1)];
    for &(extra, ff, up) in tails {
        let digits_extra = &extra[..extra.len().min(3)];
        for us in [0u32, 1, 499_999, 999_998, 999_999] {
            let carry = if us == 999_999 && up == 1 { 1 } else { 0 };
            let nus = if carry == 1 { 0 } else { us + up };
            for (h, mi, s) in [(0u32, 0u32, 0u32), (0, 0, 59), (0, 59, 59), (11, 59, 59), (23, 59, 59), (12, 30, 29)] {
                let frac = format!("{:06}{}", us, digits_extra);
                // Time
                let total = (h as i64 * 3600 + mi as i64 * 60 + s as i64 + carry as i64) * 1_000_000 + nus as i64;
                let exp_t = if total >= DAY_US { Err(()) } else { Ok(V::Time((total / 3_600_000_000) as u32, (total / 60_000_000 % 60) as u32, (total / 1_000_000 % 60) as u32, (total % 1_000_000) as u32)) };
                evl!(st, Ty::Time, &format!("HH24:MI:SS.{}", ff), &format!("{:02}:{:02}:{:02}.{}", h, mi, s, frac), exp_t, "fraction-carry");
                // Timestamp at month/year ends and the maximum
                for (y, m, d) in [(2020, 12, 31), (2021, 2, 28), (2020, 2, 28), (1969, 12, 31), (1, 1, 1), (9999, 12, 31), (1899, 12, 31)] {
                    let n = crate::cal::days_from_civil(y, m, d);
                    let t = n as i128 * DAY_US as i128 + total as i128;
                    let exp = if t > TS_MAX as i128 {
                        Err(())
                    } else {
                        let (dn, r) = (t.div_euclid(DAY_US as i128) as i64, t.rem_euclid(DAY_US as i128) as i64);
                        let (yy, mm, dd) = crate::cal::civil_from_days(dn);
                        Ok(V::Ts(yy as i32, mm, dd, (r / 3_600_000_000) as u32, (r / 60_000_000 % 60) as u32, (r / 1_000_000 % 60) as u32, (r % 1_000_000) as u32))
                    };
                    evl!(st, Ty::Ts, &format!("YYYY-MM-DD HH24:MI:SS.{}", ff), &format!("{:04}-{:02}-{:02} {:02}:{:02}:{:02}.{}", y, m, d, h, mi, s, frac), exp, "fraction-carry");
                    // with a weekday field: it is the weekday of the date *written*, also when the carry moves the value to the next day
                    let wd = crate::cal::weekday_sun0(n) as usize;
                    for (k, (wpic, wtext)) in [("DY", DAYS[wd][..3].to_string()), ("DAY", DAYS[wd].to_string()), ("D", format!("{}", wd + 1))].into_iter().enumerate() {
                        evl!(st, Ty::Ts, &format!("{} YYYY-MM-DD HH24:MI:SS.{}", wpic, ff), &format!("{} {:04}-{:02}-{:02} {:02}:{:02}:{:02}.{}", wtext, y, m, d, h, mi, s, frac), exp, "fraction-carry-with-weekday");
                        let nx = (wd + 1) % 7;
                        let wrong = [DAYS[nx][..3].to_string(), DAYS[nx].to_string(), format!("{}", nx + 1)][k].clone();
                        evl!(st, Ty::Ts, &format!("{} YYYY-MM-DD HH24:MI:SS.{}", wpic, ff), &format!("{} {:04}-{:02}-{:02} {:02}:{:02}:{:02}.{}", wrong, y, m, d, h, mi, s, frac), Err(()), "weekday-disagrees-with-date");
                    }
                }
                // IntervalDT, both signs, incl. the limit
                for (neg, dd) in [(false, 0u32), (true, 0), (false, 1), (true, 3), (false, 99_999_999), (true, 99_999_999), (false, 100_000_000), (true, 100_000_000)] {
                    let mag = dd as i128 * DAY_US as i128 + total as i128;
                    let exp = if mag > DT_LIM as i128 {
                        Err(())
                    } else {
                        let (dn, r) = ((mag / DAY_US as i128) as u32, (mag % DAY_US as i128) as i64);
                        Ok(V::DT(neg && mag != 0, dn, (r / 3_600_000_000) as u32, (r / 60_000_000 % 60) as u32, (r / 1_000_000 % 60) as u32, (r % 1_000_000) as u32))
                    };
                    evl!(st, Ty::DT, &format!("DD HH24:MI:SS.{}", ff), &format!("{}{} {:02}:{:02}:{:02}.{}", if neg { "-" } else { "+" }, dd, h, mi, s, frac), exp, "fraction-carry");
                }
            }
        }
    }
    // explicit limit cases
    st.stratum("(d) interval limits", true);
    for (ty, pic, text, exp) in [
        (Ty::YM, "YYYY-MM", "178000000-00", Ok(V::YM(false, 178_000_000, 0))),
        (Ty::YM, "YYYY-MM", "-178000000-00", Ok(V::YM(true, 178_000_000, 0))),
        (Ty::YM, "YYYY-MM", "178000000-01", Err(())),
        (Ty::YM, "YYYY-MM", "-178000000-01", Err(())),
        (Ty::YM, "YYYY-MM", "178000001-00", Err(())),
        (Ty::YM, "YYYY-MM", "999999999-00", Err(())),
        (Ty::YM, "YYYY-MM", "177999999-11", Ok(V::YM(false, 177_999_999, 11))),
        (Ty::YM, "YYYY-MM", "0-12", Err(())),
        (Ty::YM, "YYYY-MM", "1-12", Err(())),
        (Ty::YM, "MM", "05", Ok(V::YM(false, 0, 5))),
        (Ty::YM, "MM", "-05", Ok(V::YM(true, 0, 5))),
        (Ty::YM, "YYYY", "-7", Ok(V::YM(true, 7, 0))),
        (Ty::YM, "MM-YYYY", "-05-0001", Ok(V::YM(true, 1, 5))),
        (Ty::DT, "DD HH24:MI:SS.FF6", "100000000 00:00:00.000000", Ok(V::DT(false, 100_000_000, 0, 0, 0, 0))),
        (Ty::DT, "DD HH24:MI:SS.FF6", "-100000000 00:00:00.000000", Ok(V::DT(true, 100_000_000, 0, 0, 0, 0))),
        (Ty::DT, "DD HH24:MI:SS.FF6", "100000000 00:00:00.000001", Err(())),
        (Ty::DT, "DD HH24:MI:SS.FF6", "-100000000 00:00:00.000001", Err(())),
        (Ty::DT, "DD HH24:MI:SS.FF6", "100000000 00:00:01.000000", Err(())),
        (Ty::DT, "DD HH24:MI:SS.FF6", "100000001 00:00:00.000000", Err(())),
        (Ty::DT, "DD HH24:MI:SS.FF6", "999999999 00:00:00.000000", Err(())),
        (Ty::DT, "DD HH24:MI:SS.FF6", "99999999 23:59:59.999999", Ok(V::DT(false, 99_999_999, 23, 59, 59, 999_999))),
        (Ty::DT, "DD HH24:MI:SS", "1 24:00:00", Err(())),
        (Ty::DT, "DD HH24:MI:SS", "1 00:60:00", Err(())),
        (Ty::DT, "DD HH24:MI:SS", "1 00:00:60", Err(())),
        (Ty::DT, "HH24:MI:SS", "03:00:00", Ok(V::DT(false, 0, 3, 0, 0, 0))),
        (Ty::DT, "HH24:MI:SS DD", "-03:00:00 2", Ok(V::DT(true, 2, 3, 0, 0, 0))),
        (Ty::DT, "DD", "7", Ok(V::DT(false, 7, 0, 0, 0, 0))),
        (Ty::Date, "YYYY-MM-DD", "0000-01-01", Err(())),
        (Ty::Date, "YYYY-MM-DD", "9999-12-31", Ok(V::Date(9999, 12, 31))),
        (Ty::Date, "YYYY-MM-DD", "0001-01-01", Ok(V::Date(1, 1, 1))),
        (Ty::Date, "YYYY-MM-DD", "-2021-01-01", Err(())),
        (Ty::Date, "YYYY-MM-DD", "2021--1-01", Err(())),
        (Ty::Date, "YYYY-MM-DD", "2021-01--1", Err(())),
        (Ty::Date, "YYYY-MM-DD", "1900-02-29", Err(())),
        (Ty::Date, "YYYY-MM-DD", "2000-02-29", Ok(V::Date(2000, 2, 29))),
        (Ty::Date, "YYYY-MM-DD", "2021-02-29", Err(())),
        (Ty::Date, "YYYY-MM-DD", "2021-04-31", Err(())),
        (Ty::Date, "YYYY-MM-DD", "2021-00-10", Err(())),
        (Ty::Date, "YYYY-MM-DD", "2021-13-10", Err(())),
        (Ty::Date, "YYYY-MM-DD", "2021-12-00", Err(())),
        (Ty::Date, "YYYY-MM-DD", "2021-12-32", Err(())),
        (Ty::Date, "YYYY-MM-DD", "", Err(())),
        (Ty::Date, "YYYY-MM-DD", "2021-12-3x", Err(())),
        (Ty::Date, "YYYY-MM-DD", "2021-12-31 ", Ok(V::Date(2021, 12, 31))),
        (Ty::Date, "YYYY-MM-DD", " 2021-12-31", Ok(V::Date(2021, 12, 31))),
        (Ty::Date, "YYYY-MM-DD", "+2021-+12-+31", Ok(V::Date(2021, 12, 31))),
        (Ty::Date, "YYYY-MM-DD", "2021-dec-31", Ok(V::Date(2021, 12, 31))),
        (Ty::Date, "YYYY-MM-DD", "2021-DECEMBER-31", Ok(V::Date(2021, 12, 31))),
        (Ty::Date, "YYYY-MM-DD", "2021-Decembre-31", Err(())),
        (Ty::Date, "YYYY MONTH DD", "2021 Dec 31", Ok(V::Date(2021, 12, 31))),
        (Ty::Date, "D YYYY-MM-DD", "- 2021-03-11", Err(())),
        (Ty::Date, "D YYYY-MM-DD", "0 2021-03-11", Err(())),
        (Ty::Date, "D YYYY-MM-DD", "8 2021-03-11", Err(())),
        (Ty::Date, "D YYYY-MM-DD", "5 2021-03-11", Ok(V::Date(2021, 3, 11))),
        (Ty::Time, "HH24:MI:SS", "24:00:00", Err(())),
        (Ty::Time, "HH24:MI:SS", "23:60:00", Err(())),
        (Ty::Time, "HH24:MI:SS", "23:59:60", Err(())),
        (Ty::Time, "HH24:MI:SS", "-1:00:00", Err(())),
        (Ty::Time, "HH24:MI:SS", "23:-1:00", Err(())),
        (Ty::Time, "HH24:MI:SS.FF", "23:00:00.-1", Err(())),
        (Ty::Time, "HH:MI AM", "0:30 AM", Err(())),
        (Ty::Time, "HH:MI AM", "13:30 PM", Err(())),
        (Ty::Time, "HH:MI AM", "12:30 AM", Ok(V::Time(0, 30, 0, 0))),
        (Ty::Time, "HH:MI AM", "12:30 PM", Ok(V::Time(12, 30, 0, 0))),
        (Ty::Time, "HH:MI AM", "12:30 XM", Err(())),
        (Ty::Time, "HH:MI A.M.", "12:30 AM", Err(())),
        (Ty::Time, "HH24:MI:SS", "12", Ok(V::Time(12, 0, 0, 0))),
        (Ty::Time, "HH24:MI:SS", "12:", Ok(V::Time(12, 0, 0, 0))),
        (Ty::Time, "HH24:MI:SS", "12:34", Ok(V::Time(12, 34, 0, 0))),
        (Ty::Time, "HH24:MI:SS", "", Ok(V::Time(0, 0, 0, 0))),
        (Ty::Time, "HH:MI:SS", "", Ok(V::Time(12, 0, 0, 0))),
        (Ty::Ts, "YYYY-MM-DD HH24:MI:SS.FF", "2021-03-11", Ok(V::Ts(2021, 3, 11, 0, 0, 0, 0))),
        (Ty::Ts, "YYYY-MM-DD HH24:MI:SS.FF", "2021-03-11 17", Ok(V::Ts(2021, 3, 11, 17, 0, 0, 0))),
        (Ty::Ts, "YYYY-MM-DD HH24:MI:SS.FF", "2021-03-11 17:06:08.", Ok(V::Ts(2021, 3, 11, 17, 6, 8, 0))),
        (Ty::Ts, "YYYY-MM-DD HH24:MI:SS.FF", "2021-03-11 17:06:08.9", Ok(V::Ts(2021, 3, 11, 17, 6, 8, 900_000))),
        (Ty::Ts, "YYYY-MM-DD HH24:MI:SS.FF", "9999-12-31 23:59:59.9999995", Err(())),
        (Ty::Ts, "YYYY-MM-DD HH24:MI:SS.FF", "9999-12-31 23:59:59.9999994", Ok(V::Ts(9999, 12, 31, 23, 59, 59, 999_999))),
        (Ty::Ora, "YYYY-MM-DD HH24:MI:SS", "9999-12-31 23:59:59", Ok(V::Ora(9999, 12, 31, 23, 59, 59))),
        (Ty::Ora, "YYYY-MM-DD HH24:MI:SS", "2021-03-11", Ok(V::Ora(2021, 3, 11, 0, 0, 0))),
        (Ty::Ora, "YYYY-MM-DD HH24:MI:SS.FF", "2021-03-11 00:00:00.5", Err(())),
        (Ty::Date, "YYYY-MM-DD HH24", "2021-03-11 00", Err(())),
        (Ty::Time, "YYYY HH24", "2021 00", Err(())),
        (Ty::YM, "YYYY-MM-DD", "1-01-01", Err(())),
        (Ty::YM, "YYYY MON", "1 Jan", Err(())),
        (Ty::DT, "DD HH:MI", "1 01:01", Err(())),
        (Ty::DT, "DD HH24:MI AM", "1 01:01 AM", Err(())),
        (Ty::DT, "MM DD", "01 01", Err(())),
        (Ty::Date, "YYYY-MM-DD W", "2021-03-11 2", Err(())),
        (Ty::Date, "YYYY-MM-DD WW", "2021-03-11 10", Err(())),
        (Ty::Date, "YYYY-MM-DD MM", "2021-03-11 03", Err(())),
        (Ty::Date, "YYYY-MM-DD YYYY", "2021-03-11 2021", Err(())),
        (Ty::Date, "YYYY-MM-DD DD", "2021-03-11 11", Err(())),
        (Ty::Date, "YYYY-DDD DDD", "2021-070 070", Err(())),
        (Ty::Time, "HH24:MI:SS SS", "12:00:00 00", Err(())),
        (Ty::Time, "HH24:MI:MI", "12:00:00", Err(())),
        (Ty::Time, "HH24 HH24", "12 12", Err(())),
        (Ty::Time, "FF FF", "1 1", Err(())),
        (Ty::Time, "AM HH PM", "AM 12 AM", Err(())),
    ] {
        evl!(st, ty, pic, text, exp, "explicit");
    }
    // (d2) every non-ASCII character (BMP) after and before a valid text: blanks are the ASCII ones, anything else is text
    //      the picture does not account for
    let cstep = ctx.tier.pick(997, ctx.q(7, 1), 1);
    ctx.par(st, "(d2) every non-ASCII BMP character appended / prepended to a valid text", true, 0, (0x1_0000 - 0x80) / cstep, |st, i, _| {
        let cp = 0x80 + (i * cstep) as u32;
        if let Some(ch) = char::from_u32(cp) {
            let cases: [(Ty, &str, &str); 6] = [(Ty::Date, "YYYY-MM-DD", "2024-05-03"), (Ty::Time, "HH24:MI:SS", "10:20:30"), (Ty::Ts, "YYYY-MM-DD HH24:MI:SS.FF6", "2024-05-03 10:20:30.250000"),
                (Ty::Ora, "DD MON YYYY", "3 may 2024"), (Ty::YM, "YYYY-MM", "+12-05"), (Ty::DT, "DD HH24:MI:SS", "-5 10:20:30")];
            let (ty, pic, text) = cases[(i % 6) as usize];
            ev(st, ty, pic, &format!("{}{}", text, ch), Err(()), "trailing-garbage");
            ev(st, ty, pic, &format!("{}{}", ch, text), Err(()), "leading-garbage");
            ev(st, ty, pic, &format!("{} {}", text, ch), Err(()), "trailing-garbage");
        }
    });
    // (e)+(f)+(g) lenient spellings of boundary/random values, their perturbations, defective pictures
    let n = ctx.tier.pick(600, 1_200_000, ctx.big(24_000_000, 120_000_000));
    ctx.par(st, "(e,f,g) lenient spellings / perturbed texts / defective pictures, all six types", false, 0, n, |st, _, rng| {
        let ty = *rng.pick(&ALL_TY);
        let (pic, toks): (String, Vec<Tok>) = if rng.chance(1, 2) {
            let p = *rng.pick(canonical_pictures(ty));
            (p.to_string(), tokenize(p.as_bytes()).expect("canonical picture"))
        } else {
            let lossless = rng.chance(1, 2);
            match gen_picture(rng, ty, lossless) {
                Some(g) => (g.text, g.toks),
                None => {
                    st.skipped += 1;
                    return;
                }
            }
        };
        match parse_picture_ok(ty, &toks) {
            Some(true) => {}
            _ => {
                st.skipped += 1;
                return;
            }
        }
        let v = rand_value(rng, ty);
        match rng.below(10) {
            0..=5 => {
                // lenient spelling, possibly with omitted trailing time fields
                let extra = if rng.chance(1, 6) { Some(*rng.pick(&["4", "5", "49", "50", "499", "500", "999", "001"])) } else { None };
                let lenient = rng.chance(4, 5);
                let sp = spell(rng, &v, &toks, &Opts { lenient, allow_cut: true, pert: None, extra_frac: extra });
                let exp = denote(ty, &sp.given, CLOCK);
                evh(st, ty, &pic, &sp.text, exp, if exp.is_ok() { "lenient-spelling" } else { "carry-beyond-range" });
                if rng.chance(1, 8) {
                    // the same parse after other operations on related dates
                    let anchors: Vec<i64> = exp.ok().and_then(|x| x.to_lib()).and_then(|x| x.day_number()).into_iter().collect();
                    let pr = crate::primers::gen_some(rng, &anchors, 0, &[]);
                    let c = P { via_serde: false, ty, pic: &pic, text: &sp.text, expect: exp, why: if exp.is_ok() { "lenient-spelling" } else { "carry-beyond-range" } };
                    st.eval_primed(mix(hash64(pic.as_bytes()), hash64(sp.text.as_bytes())), pr, c, check);
                }
            }
            6..=8 => {
                // one component out of its domain / inconsistent / leftover text
                let pert = *rng.pick(&[Pert::Month, Pert::Day, Pert::DayOverMonth, Pert::Doy, Pert::DoyMismatch, Pert::Dow, Pert::Hour, Pert::Minute, Pert::Second, Pert::YearZero, Pert::IntervalLimit, Pert::Garbage, Pert::Leftover]);
                let lenient = rng.chance(1, 2);
                let sp = spell(rng, &v, &toks, &Opts { lenient, allow_cut: false, pert: Some(pert), extra_frac: None });
                if !sp.pert_applied {
                    st.skipped += 1;
                    return;
                }
                // soundness: the reference reading itself must say "denotes nothing" (for field perturbations)
                if !matches!(pert, Pert::Garbage | Pert::Leftover) && denote(ty, &sp.given, CLOCK).is_ok() {
                    st.skipped += 1;
                    return;
                }
                evh(st, ty, &pic, &sp.text, Err(()), pert.name());
                // history: a valid text under the same picture, then the invalid one twice in a row (an error must not
                // leave anything behind that makes the repeat succeed), through the parser and through serde where it applies
                if rng.chance(1, 4) {
                    let good = spell(rng, &v, &toks, &Opts { lenient: false, allow_cut: false, pert: None, extra_frac: None });
                    let gexp = denote(ty, &good.given, CLOCK);
                    let via_serde = pic == crate::props::c15::layout(ty) && rng.chance(1, 2);
                    let bad = P { via_serde, ty, pic: &pic, text: &sp.text, expect: Err(()), why: pert.name() };
                    let ok = P { via_serde, ty, pic: &pic, text: &good.text, expect: gexp, why: "lenient-spelling" };
                    let h = mix(mix(hash64(pic.as_bytes()), hash64(sp.text.as_bytes())), mix(hash64(good.text.as_bytes()), via_serde as u64));
                    st.eval_hist(h, vec![ok, bad.clone(), bad], check);
                }
            }
            _ => {
                // a defective picture: repeated code, output-only code, inapplicable code; the text is spelled for the defective picture
                let defect = *rng.pick(&[PicDefect::RepeatedField, PicDefect::OutputOnly, PicDefect::Inapplicable]);
                let fields: Vec<&Tok> = toks.iter().filter(|t| !matches!(t, Tok::Punct(_) | Tok::Blank(_) | Tok::T)).collect();
                let extra_tok: Option<Tok> = match defect {
                    PicDefect::RepeatedField => fields.get(rng.below(fields.len().max(1) as u64) as usize).map(|t| (*t).clone()),
                    PicDefect::OutputOnly => Some(if rng.chance(1, 2) { Tok::W } else { Tok::WW }),
                    PicDefect::Inapplicable => {
                        let all = [Tok::Year(4), Tok::MM, Tok::Mon(Style::Upper), Tok::DD, Tok::DDD, Tok::D, Tok::Day(Style::Capital), Tok::HH24, Tok::HH12, Tok::MI, Tok::SS, Tok::FF(None), Tok::Mer { dots: false }];
                        let cands: Vec<Tok> = all.iter().filter(|t| !ty.applies(t)).cloned().collect();
                        if cands.is_empty() {
                            None
                        } else {
                            Some(cands[rng.below(cands.len() as u64) as usize].clone())
                        }
                    }
                };
                let extra_tok = match extra_tok {
                    Some(t) => t,
                    None => {
                        st.skipped += 1;
                        return;
                    }
                };
                let sep = *rng.pick(&[" ", "-", "/"]);
                let newpic = format!("{}{}{}", pic, sep, tok_text(&extra_tok));
                let ntoks = match tokenize(newpic.as_bytes()) {
                    Some(t) if t.len() == toks.len() + 2 && t.last() == Some(&extra_tok) => t,
                    _ => {
                        st.skipped += 1;
                        return;
                    }
                };
                // text: the valid spelling followed by a plausible rendering of the extra code
                let sp = spell(rng, &v, &toks, &Opts { lenient: false, allow_cut: false, pert: None, extra_frac: None });
                let probe = V::Ts(2021, 3, 11, 17, 6, 8, 912_345);
                let extra_text = render(&probe, std::slice::from_ref(&extra_tok)).unwrap_or_else(|_| "1".into());
                let text = format!("{}{}{}", sp.text, sep, extra_text);
                let _ = ntoks;
                evh(st, ty, &newpic, &text, Err(()), defect.name());
            }
        }
    });
}

pub fn replay(v: &Value, st: &mut Stats) -> bool {
    if jstr(v, "kind") != "parse" {
        return false;
    }
    let ty = match Ty::from_name(&jstr(v, "type")) {
        Some(t) => t,
        None => return false,
    };
    let expect = match v.get("expect") {
        Some(Value::String(_)) => Err(()),
        Some(x) => match V::from_json(x) {
            Some(v) => Ok(v),
            None => return false,
        },
        None => return false,
    };
    let (pic, text, why) = (jstr(v, "picture"), jstr(v, "text"), jstr(v, "why"));
    st.eval(&P { via_serde: v.get("via_serde").and_then(|x| x.as_bool()).unwrap_or(false), ty, pic: &pic, text: &text, expect, why: &why }, check);
    true
}
