//! C13 - intervals decompose into sign and fields uniquely and negate symmetrically.
use crate::core::*;
use crate::kinds;
use crate::pools::*;
use serde_json::Value;
use sqldatetime::{DateTime, IntervalDT, IntervalYM, Sign};
use std::cmp::Ordering;
use std::collections::hash_map::DefaultHasher;
use std::hash::{Hash, Hasher};

kinds!(K { Ym = "IntervalYM value", YmOut = "IntervalYM out-of-range months", YmFields = "IntervalYM fields", YmOrd = "IntervalYM order",
           Dt = "IntervalDT value", DtOut = "IntervalDT out-of-range usecs", DtFields = "IntervalDT fields", DtOrd = "IntervalDT order" });
pub type C = G<K>;
impl Case for C {
    fn to_json(&self) -> Value {
        g_json(self.k.name(), self.a, self.b, self.c, self.f)
    }
}
fn h<T: Hash>(t: &T) -> u64 {
    let mut s = DefaultHasher::new();
    t.hash(&mut s);
    s.finish()
}

pub fn check(st: &mut Stats, c: &C) {
    match c.k {
        K::Ym => {
            let m = c.a as i32;
            st.op(Op::YM_try_from_months);
            let x = match IntervalYM::try_from_months(m) {
                Ok(x) => x,
                Err(e) => return st.fail("C13/ym/try_from_months-rejects-in-range", format!("{} -> {:?}", m, e)),
            };
            st.obs(Op::YM_try_from_months, &x);
            st.op(Op::YM_months);
            if x.months() != m {
                st.fail("C13/ym/months-not-identity", format!("{} -> {}", m, x.months()));
            }
            st.op(Op::YM_extract);
            let (sg, y, mo) = x.extract();
            let sgn: i64 = if sg == Sign::Negative { -1 } else { 1 };
            // (a zero interval may carry either sign: the statement only requires value = sign x fields)
            if mo > 11 || sgn * (y as i64 * 12 + mo as i64) != m as i64 {
                st.fail("C13/ym/extract-does-not-recompose", format!("{} -> ({:?}, {}, {})", m, sg, y, mo));
            }
            st.op(Op::YM_try_from_ym);
            match IntervalYM::try_from_ym(y, mo) {
                Ok(p) => {
                    st.obs(Op::YM_try_from_ym, &p);
                    let back = if sg == Sign::Negative { -p } else { p };
                    if back != x || p.months() as i64 != (m as i64).abs() {
                        st.fail("C13/ym/constructor-not-inverse-of-extract", format!("{} -> ({:?},{},{}) -> {}", m, sg, y, mo, back.months()));
                    }
                }
                Err(e) => st.fail("C13/ym/constructor-rejects-extracted-fields", format!("{} -> ({},{}) -> {:?}", m, y, mo, e)),
            }
            st.op(Op::YM_is_valid_ym);
            if !IntervalYM::is_valid_ym(y, mo) {
                st.fail("C13/ym/is_valid-rejects-extracted-fields", format!("{} -> ({},{})", m, y, mo));
            }
            st.op(Op::YM_neg);
            let n = -x;
            st.obs(Op::YM_neg, &n);
            if n.months() as i64 != -(m as i64) || -n != x {
                st.fail("C13/ym/negation", format!("-({}) = {}, -(-x) = {}", m, n.months(), (-n).months()));
            }
            st.op(Op::YM_accessors);
            if x.year() != Some((sgn * y as i64) as i32) || x.month() != Some((sgn * mo as i64) as i32) || x.day().is_some() || x.hour().is_some() || x.minute().is_some() || x.second().is_some() || x.date().is_some() {
                st.fail("C13/ym/accessors-disagree-with-decomposition", format!("{}: year {:?} month {:?}", m, x.year(), x.month()));
            }
        }
        K::YmOut => {
            st.op(Op::YM_try_from_months);
            if let Ok(x) = IntervalYM::try_from_months(c.a as i32) {
                st.obs(Op::YM_try_from_months, &x);
                st.fail("C13/ym/try_from_months-accepts-out-of-range", format!("{}", c.a));
            }
        }
        K::YmFields => {
            let (y, mo) = (c.a as u32, c.b as u32);
            let total = y as i128 * 12 + mo as i128;
            let valid = mo < 12 && total <= YM_LIM as i128;
            st.op(Op::YM_try_from_ym);
            st.op(Op::YM_is_valid_ym);
            let r = IntervalYM::try_from_ym(y, mo);
            st.obs_r(Op::YM_try_from_ym, &r);
            match &r {
                Ok(x) if !valid => st.fail("C13/ym/constructor-accepts-invalid-fields", format!("({}, {}) -> {}", y, mo, x.months())),
                Ok(x) if x.months() as i128 != total => st.fail("C13/ym/constructor-wrong-value", format!("({}, {}) -> {}", y, mo, x.months())),
                Err(e) if valid => st.fail("C13/ym/constructor-rejects-valid-fields", format!("({}, {}) -> {:?}", y, mo, e)),
                _ => {}
            }
            if IntervalYM::is_valid_ym(y, mo) != valid {
                st.fail("C13/ym/is_valid_ym-disagrees", format!("({}, {})", y, mo));
            }
        }
        K::YmOrd => {
            let (x, y) = (IntervalYM::try_from_months(c.a as i32).expect("ym"), IntervalYM::try_from_months(c.b as i32).expect("ym"));
            st.op(Op::YM_cmp);
            let e = c.a.cmp(&c.b);
            if x.cmp(&y) != e || x.partial_cmp(&y) != Some(e) || (x == y) != (e == Ordering::Equal) || (x < y) != (e == Ordering::Less) || (e == Ordering::Equal && h(&x) != h(&y)) {
                st.fail("C13/ym/order-not-numeric", format!("{} vs {}", c.a, c.b));
            }
        }
        K::Dt => {
            let u = c.a;
            st.op(Op::DT_try_from_usecs);
            let x = match IntervalDT::try_from_usecs(u) {
                Ok(x) => x,
                Err(e) => return st.fail("C13/dt/try_from_usecs-rejects-in-range", format!("{} -> {:?}", u, e)),
            };
            st.obs(Op::DT_try_from_usecs, &x);
            st.op(Op::DT_usecs);
            if x.usecs() != u {
                st.fail("C13/dt/usecs-not-identity", format!("{}", u));
            }
            st.op(Op::DT_extract);
            let (sg, d, hh, mi, ss, us) = x.extract();
            let sgn: i128 = if sg == Sign::Negative { -1 } else { 1 };
            let total = d as i128 * DAY_US as i128 + hh as i128 * 3_600_000_000 + mi as i128 * 60_000_000 + ss as i128 * 1_000_000 + us as i128;
            if hh > 23 || mi > 59 || ss > 59 || us > 999_999 || sgn * total != u as i128 {
                st.fail("C13/dt/extract-does-not-recompose", format!("{} -> {:?}", u, (sg, d, hh, mi, ss, us)));
            }
            st.op(Op::DT_try_from_dhms);
            match IntervalDT::try_from_dhms(d, hh, mi, ss, us) {
                Ok(p) => {
                    st.obs(Op::DT_try_from_dhms, &p);
                    let back = if sg == Sign::Negative { -p } else { p };
                    if back != x {
                        st.fail("C13/dt/constructor-not-inverse-of-extract", format!("{} -> {:?} -> {}", u, (sg, d, hh, mi, ss, us), back.usecs()));
                    }
                }
                Err(e) => st.fail("C13/dt/constructor-rejects-extracted-fields", format!("{} -> {:?} -> {:?}", u, (d, hh, mi, ss, us), e)),
            }
            st.op(Op::DT_is_valid);
            if !IntervalDT::is_valid(d, hh, mi, ss, us) {
                st.fail("C13/dt/is_valid-rejects-extracted-fields", format!("{}", u));
            }
            st.op(Op::DT_neg);
            let n = -x;
            st.obs(Op::DT_neg, &n);
            if n.usecs() != -u || -n != x {
                st.fail("C13/dt/negation", format!("{}", u));
            }
            st.op(Op::DT_accessors);
            let s = sgn as i64;
            let sec_ok = match x.second() {
                Some(v) => {
                    let e = s as f64 * (ss as f64 + us as f64 / 1e6);
                    (v - e).abs() < 1e-9 && (v * 1e6).round() as i64 == s * (ss as i64 * 1_000_000 + us as i64)
                }
                None => false,
            };
            if x.day() != Some((s * d as i64) as i32) || x.hour() != Some((s * hh as i64) as i32) || x.minute() != Some((s * mi as i64) as i32) || !sec_ok || x.year().is_some() || x.month().is_some() || x.date().is_some() {
                st.fail("C13/dt/accessors-disagree-with-decomposition", format!("{}: day {:?} hour {:?} minute {:?} second {:?}", u, x.day(), x.hour(), x.minute(), x.second()));
            }
        }
        K::DtOut => {
            st.op(Op::DT_try_from_usecs);
            if let Ok(x) = IntervalDT::try_from_usecs(c.a) {
                st.obs(Op::DT_try_from_usecs, &x);
                st.fail("C13/dt/try_from_usecs-accepts-out-of-range", format!("{}", c.a));
            }
        }
        K::DtFields => {
            let d = (c.a >> 32) as u32;
            let hh = c.a as u32;
            let mi = (c.b >> 32) as u32;
            let ss = c.b as u32;
            let us = c.c as u32;
            let total = d as i128 * DAY_US as i128 + hh as i128 * 3_600_000_000 + mi as i128 * 60_000_000 + ss as i128 * 1_000_000 + us as i128;
            let valid = hh < 24 && mi < 60 && ss < 60 && us < 1_000_000 && total <= DT_LIM as i128;
            st.op(Op::DT_try_from_dhms);
            st.op(Op::DT_is_valid);
            let r = IntervalDT::try_from_dhms(d, hh, mi, ss, us);
            st.obs_r(Op::DT_try_from_dhms, &r);
            match &r {
                Ok(x) if !valid => st.fail("C13/dt/constructor-accepts-invalid-fields", format!("{:?} -> {}", (d, hh, mi, ss, us), x.usecs())),
                Ok(x) if x.usecs() as i128 != total => st.fail("C13/dt/constructor-wrong-value", format!("{:?} -> {}", (d, hh, mi, ss, us), x.usecs())),
                Err(e) if valid => st.fail("C13/dt/constructor-rejects-valid-fields", format!("{:?} -> {:?}", (d, hh, mi, ss, us), e)),
                _ => {}
            }
            if IntervalDT::is_valid(d, hh, mi, ss, us) != valid {
                st.fail("C13/dt/is_valid-disagrees", format!("{:?}", (d, hh, mi, ss, us)));
            }
        }
        K::DtOrd => {
            let (x, y) = (IntervalDT::try_from_usecs(c.a).expect("dt"), IntervalDT::try_from_usecs(c.b).expect("dt"));
            st.op(Op::DT_cmp);
            let e = c.a.cmp(&c.b);
            if x.cmp(&y) != e || x.partial_cmp(&y) != Some(e) || (x == y) != (e == Ordering::Equal) || (x < y) != (e == Ordering::Less) || (e == Ordering::Equal && h(&x) != h(&y)) {
                st.fail("C13/dt/order-not-numeric", format!("{} vs {}", c.a, c.b));
            }
        }
    }
}

pub fn run(ctx: &Ctx, st: &mut Stats) {
    let lim = YM_LIM as i64;
    match ctx.tier {
        Tier::Thorough | Tier::Quick if !ctx.light => {
            ctx.par(st, "ym/all-values", true, -lim, lim + 1, |st, m, _| {
                st.eval(&C::ab(K::Ym, m, 0), check);
            });
            st.mark_exhaustive("ym/all-values", "all 4,272,000,001 year-month interval values");
        }
        _ => {
            let stride = ctx.tier.pick(1_000_003, 97, 1);
            let near = ctx.tier.pick(500, 1_000_000, 0);
            ctx.par(st, "ym/strided-values", true, 0, (2 * lim + 1) / stride + 1, |st, i, _| {
                let m = -lim + i * stride;
                // values covered by the next stratum are not counted twice
                if m <= lim && m.abs() > near && lim - m.abs() >= 5000 {
                    st.eval(&C::ab(K::Ym, m, 0), check);
                }
            });
            ctx.par(st, "ym/near-zero-and-limits", true, -near, near + 1, |st, m, _| {
                st.eval(&C::ab(K::Ym, m, 0), check);
                if m >= 0 && m < 5000 {
                    st.eval(&C::ab(K::Ym, lim - m, 0), check);
                    st.eval(&C::ab(K::Ym, -lim + m, 0), check);
                }
            });
        }
    }
    st.stratum("ym/out-of-range", true);
    for k in 1..=2000i64 {
        st.eval(&C::ab(K::YmOut, lim + k, 0), check);
        st.eval(&C::ab(K::YmOut, -lim - k, 0), check);
    }
    for v in [i32::MIN as i64, i32::MIN as i64 + 1, i32::MAX as i64, i32::MAX as i64 - 1] {
        st.eval(&C::ab(K::YmOut, v, 0), check);
    }
    st.stratum("ym/constructor-grid", true);
    let years = [0u32, 1, 2, 9999, 177_999_998, 177_999_999, 178_000_000, 178_000_001, 178_956_970, 178_956_971, 357_913_941, 357_913_942, 999_999_999, 1 << 31, u32::MAX - 1, u32::MAX];
    let months = [0u32, 1, 10, 11, 12, 13, 24, 1 << 31, u32::MAX - 1, u32::MAX];
    for &y in &years {
        for &m in &months {
            st.eval(&C::ab(K::YmFields, y as i64, m as i64), check);
        }
    }
    st.mark_exhaustive("ym/constructor-grid", "16 boundary years x 10 boundary months incl. u32 extremes");
    // day-time intervals
    st.stratum("dt/boundaries", true);
    let mut vals = dt_pool();
    let units = [1i64, 1_000_000, 60_000_000, 3_600_000_000, DAY_US];
    for &u in &units {
        for k in [1i64, 2, 23, 24, 59, 60, 61, 99, 100, 365, 1000, 99_999_999, 100_000_000] {
            for e in [-1i64, 0, 1] {
                if let Some(v) = u.checked_mul(k).and_then(|v| v.checked_add(e)) {
                    vals.push(v);
                    vals.push(-v);
                }
            }
        }
    }
    vals.retain(|v| v.abs() <= DT_LIM);
    vals.sort();
    vals.dedup();
    for &v in &vals {
        st.eval(&C::ab(K::Dt, v, 0), check);
    }
    for w in vals.windows(2) {
        st.eval(&C::ab(K::DtOrd, w[0], w[1]), check);
        st.eval(&C::ab(K::DtOrd, w[1], w[0]), check);
        st.eval(&C::ab(K::DtOrd, w[0], w[0]), check);
    }
    let secs = ctx.tier.pick(300, 2 * 86_400, 2 * 86_400);
    ctx.par(st, "dt/every-second-within-2-days", true, -secs, secs + 1, |st, s, _| {
        st.eval(&C::ab(K::Dt, s * 1_000_000, 0), check);
        st.eval(&C::ab(K::Dt, s * 1_000_000 + 999_999 * s.signum().max(0) + (s == 0) as i64, 0), check);
    });
    st.stratum("dt/out-of-range", true);
    for k in 1..=500i64 {
        st.eval(&C::ab(K::DtOut, DT_LIM + k, 0), check);
        st.eval(&C::ab(K::DtOut, -DT_LIM - k, 0), check);
    }
    for v in [i64::MIN, i64::MIN + 1, i64::MAX, i64::MAX - 1, DT_LIM + DAY_US, -DT_LIM - DAY_US] {
        st.eval(&C::ab(K::DtOut, v, 0), check);
    }
    st.stratum("dt/constructor-grid", true);
    let days = [0u32, 1, 31, 32, 99_999_999, 100_000_000, 100_000_001, 213_503_982, 213_503_983, (1 << 31) - 1, 1 << 31, u32::MAX];
    let hours = [0u32, 1, 23, 24, 25, 1 << 31, u32::MAX];
    let mins = [0u32, 1, 59, 60, 1 << 31, u32::MAX];
    let uss = [0u32, 1, 999_999, 1_000_000, 1 << 31, u32::MAX];
    for &d in &days {
        for &hh in &hours {
            for &mi in &mins {
                for &ss in &mins {
                    for &us in &uss {
                        st.eval(&C::abc(K::DtFields, ((d as i64) << 32) | hh as i64, ((mi as i64) << 32) | ss as i64, us as i64), check);
                    }
                }
            }
        }
    }
    st.mark_exhaustive("dt/constructor-grid", "12 boundary days x 7 hours x 6 minutes x 6 seconds x 6 microsecond values incl. u32 extremes");
    let n = ctx.tier.pick(1_000, 2_000_000, ctx.big(40_000_000, 300_000_000));
    ctx.par(st, "random/values-and-pairs", false, 0, n, |st, _, rng| {
        let c = match rng.below(6) {
            0 => C::ab(K::DtOrd, rng.range_i64(-DT_LIM, DT_LIM), rng.range_i64(-DT_LIM, DT_LIM)),
            1 => C::ab(K::YmOrd, rng.range_i64(-lim, lim), rng.range_i64(-lim, lim)),
            2 => {
                let a = rng.range_i64(-lim + 2, lim - 2);
                C::ab(K::YmOrd, a, a + rng.range_i64(-1, 1))
            }
            3 => C::ab(K::Dt, rng.range_i64(-400 * DAY_US, 400 * DAY_US), 0),
            _ => C::ab(K::Dt, rng.range_i64(-DT_LIM, DT_LIM), 0),
        };
        { let (an, td, ks) = crate::primers::g_context(c.a, c.b); crate::primers::eval_sched(st, rng, c.hash(c.k as u64), &c, &an, td, &ks, check); }
    });
}

pub fn replay(v: &Value, st: &mut Stats) -> bool {
    match K::from_name(&jstr(v, "kind")) {
        Some(k) => {
            st.eval(&C { k, a: ji64(v, "a"), b: ji64(v, "b"), c: ji64(v, "c"), f: jf64(v, "f") }, check);
            true
        }
        None => false,
    }
}
