//! C08 - day and microsecond arithmetic is exact, invertible and exactly range-checked.
use crate::core::*;
use crate::f64x::{abs_product, decompose};
use crate::kinds;
use crate::pools::*;
use serde_json::Value;
use sqldatetime::{Date, IntervalDT, IntervalYM, OracleDate, Time, Timestamp};

kinds!(K {
    DateAddDays = "Date::add_days", DateSubDays = "Date::sub_days", DateSubDate = "Date::sub_date",
    DateAddDt = "Date::add_interval_dt", DateSubDt = "Date::sub_interval_dt", DateAddTime = "Date::add_time", DateSubTime = "Date::sub_time",
    DateSubTs = "Date::sub_timestamp",
    TsAddDt = "Timestamp::add_interval_dt", TsSubDt = "Timestamp::sub_interval_dt", TsAddTime = "Timestamp::add_time", TsSubTime = "Timestamp::sub_time",
    TsSubTs = "Timestamp::sub_timestamp", TsSubDate = "Timestamp::sub_date", TsAddDays = "Timestamp::add_days", TsSubDays = "Timestamp::sub_days",
    YmAdd = "IntervalYM::add_interval_ym", YmSub = "IntervalYM::sub_interval_ym", DtAdd = "IntervalDT::add_interval_dt", DtSub = "IntervalDT::sub_interval_dt",
    DtSubTime = "IntervalDT::sub_time", OraAddTime = "OracleDate::add_time", OraSubTime = "OracleDate::sub_time", OraSubTs = "OracleDate::sub_timestamp",
    TsOraSubDate = "Timestamp::oracle_sub_date",
});
pub type C = G<K>;
impl Case for C {
    fn to_json(&self) -> Value {
        g_json(self.k.name(), self.a, self.b, self.c, self.f)
    }
}

fn date(n: i64) -> Date {
    Date::try_from_days(n as i32).expect("pool date")
}
fn ts(u: i64) -> Timestamp {
    Timestamp::try_from_usecs(u).expect("pool timestamp")
}
fn dt(u: i64) -> IntervalDT {
    IntervalDT::try_from_usecs(u).expect("pool interval")
}
fn ym(m: i64) -> IntervalYM {
    IntervalYM::try_from_months(m as i32).expect("pool interval")
}
fn tm(u: i64) -> Time {
    Time::try_from_usecs(u).expect("pool time")
}

/// compares a fallible result with the exact model: Ok iff lo <= exact <= hi, and then equal
fn judge<T: Ranged>(st: &mut Stats, op: Op, name: &str, r: Result<T, sqldatetime::Error>, exact: i128, lo: i64, hi: i64, args: &dyn Fn() -> String) {
    let in_range = exact >= lo as i128 && exact <= hi as i128;
    match r {
        Ok(v) => {
            st.obs(op, &v);
            if !in_range {
                st.fail(format!("C08/{}/ok-although-exact-result-out-of-range", name), format!("{}: got {} exact {}", args(), v.raw(), exact));
            } else if v.raw() as i128 != exact {
                st.fail(format!("C08/{}/wrong-value", name), format!("{}: got {} exact {}", args(), v.raw(), exact));
            }
        }
        Err(e) => {
            if in_range {
                st.fail(format!("C08/{}/err-although-exact-result-in-range", name), format!("{}: {:?}, exact {}", args(), e, exact));
            }
        }
    }
}

pub fn check(st: &mut Stats, c: &C) {
    let (a, b) = (c.a, c.b);
    let name = c.k.name();
    let args = || format!("{}({}, {})", name, a, b);
    let (dlo, dhi) = (MIN_DAY as i64, MAX_DAY as i64);
    match c.k {
        K::DateAddDays | K::DateSubDays => {
            let add = c.k == K::DateAddDays;
            let (op, inv) = if add { (Op::D_add_days, Op::D_sub_days) } else { (Op::D_sub_days, Op::D_add_days) };
            st.op(op);
            let d = date(a);
            let k = b as i32;
            let r = if add { d.add_days(k) } else { d.sub_days(k) };
            let exact = if add { a as i128 + b as i128 } else { a as i128 - b as i128 };
            if let Ok(x) = &r {
                // x + i - i = x
                st.op(inv);
                let back = if add { x.sub_days(k) } else { x.add_days(k) };
                if back.as_ref().map(|v| v.days() as i64).ok() != Some(a) {
                    st.fail(format!("C08/{}/inverse-law", name), format!("{} then inverse gives {:?}", args(), back.map(|v| v.days())));
                }
                // (x + i) - x = i
                st.op(Op::D_sub_date);
                let diff = x.sub_date(d) as i64;
                if diff != if add { b } else { -b } {
                    st.fail(format!("C08/{}/difference-law", name), format!("{}: ({}) - x = {}", args(), x.days(), diff));
                }
            }
            judge(st, op, name, r, exact, dlo, dhi, &args);
        }
        K::DateSubDate => {
            st.op(Op::D_sub_date);
            let (x, y) = (date(a), date(b));
            let r = x.sub_date(y);
            if r as i64 != a - b {
                st.fail("C08/Date::sub_date/wrong-value", format!("{} = {}", args(), r));
            }
            if y.sub_date(x) as i64 != -(r as i64) {
                st.fail("C08/Date::sub_date/antisymmetry", args());
            }
        }
        K::DateAddDt | K::DateSubDt | K::TsAddDt | K::TsSubDt => {
            let on_date = matches!(c.k, K::DateAddDt | K::DateSubDt);
            let add = matches!(c.k, K::DateAddDt | K::TsAddDt);
            let base = if on_date { a * DAY_US } else { a };
            let i = dt(b);
            let op = match c.k {
                K::DateAddDt => Op::D_add_interval_dt,
                K::DateSubDt => Op::D_sub_interval_dt,
                K::TsAddDt => Op::TS_add_interval_dt,
                _ => Op::TS_sub_interval_dt,
            };
            st.op(op);
            let r = match c.k {
                K::DateAddDt => date(a).add_interval_dt(i),
                K::DateSubDt => date(a).sub_interval_dt(i),
                K::TsAddDt => ts(a).add_interval_dt(i),
                _ => ts(a).sub_interval_dt(i),
            };
            let exact = if add { base as i128 + b as i128 } else { base as i128 - b as i128 };
            if let Ok(x) = &r {
                let back = if add { x.sub_interval_dt(i) } else { x.add_interval_dt(i) };
                st.op(if add { Op::TS_sub_interval_dt } else { Op::TS_add_interval_dt });
                if back.as_ref().map(|v| v.usecs()).ok() != Some(base) {
                    st.fail(format!("C08/{}/inverse-law", name), format!("{} then inverse gives {:?}", args(), back.map(|v| v.usecs())));
                }
                st.op(Op::TS_sub_timestamp);
                let diff = x.sub_timestamp(ts(base));
                st.obs(Op::TS_sub_timestamp, &diff);
                if diff.usecs() != if add { b } else { -b } {
                    st.fail(format!("C08/{}/difference-law", name), format!("{}: result - x = {}", args(), diff.usecs()));
                }
            }
            judge(st, op, name, r, exact, TS_MIN, TS_MAX, &args);
        }
        K::DateAddTime => {
            st.op(Op::D_add_time);
            let r = date(a).add_time(tm(b));
            st.obs(Op::D_add_time, &r);
            if r.usecs() as i128 != a as i128 * DAY_US as i128 + b as i128 {
                st.fail("C08/Date::add_time/wrong-value", format!("{} = {}", args(), r.usecs()));
            }
        }
        K::DateSubTime | K::TsAddTime | K::TsSubTime | K::OraAddTime | K::OraSubTime => {
            let t = tm(b);
            let (op, base, r) = match c.k {
                K::DateSubTime => (Op::D_sub_time, a * DAY_US, date(a).sub_time(t)),
                K::TsAddTime => (Op::TS_add_time, a, ts(a).add_time(t)),
                K::TsSubTime => (Op::TS_sub_time, a, ts(a).sub_time(t)),
                K::OraAddTime => (Op::O_add_time, a, OracleDate::try_from_usecs(a).expect("pool oracle date").add_time(t)),
                _ => (Op::O_sub_time, a, OracleDate::try_from_usecs(a).expect("pool oracle date").sub_time(t)),
            };
            st.op(op);
            let add = matches!(c.k, K::TsAddTime | K::OraAddTime);
            let exact = if add { base as i128 + b as i128 } else { base as i128 - b as i128 };
            if let Ok(x) = &r {
                let back = if add { x.sub_time(t) } else { x.add_time(t) };
                if back.as_ref().map(|v| v.usecs()).ok() != Some(base) {
                    st.fail(format!("C08/{}/inverse-law", name), format!("{} then inverse gives {:?}", args(), back.map(|v| v.usecs())));
                }
            }
            judge(st, op, name, r, exact, TS_MIN, TS_MAX, &args);
        }
        K::TsSubTs | K::TsSubDate | K::DateSubTs | K::OraSubTs | K::TsOraSubDate => {
            let (op, x, y, r) = match c.k {
                K::TsSubTs => (Op::TS_sub_timestamp, a, b, ts(a).sub_timestamp(ts(b))),
                K::TsSubDate => (Op::TS_sub_date, a, b * DAY_US, ts(a).sub_date(date(b))),
                K::DateSubTs => (Op::D_sub_timestamp, a * DAY_US, b, date(a).sub_timestamp(ts(b))),
                K::OraSubTs => (Op::O_sub_timestamp, a, b, OracleDate::try_from_usecs(a).expect("pool oracle date").sub_timestamp(ts(b))),
                _ => (Op::TS_oracle_sub_date, a, b, ts(a).oracle_sub_date(OracleDate::try_from_usecs(b).expect("pool oracle date"))),
            };
            st.op(op);
            st.obs(op, &r);
            if r.usecs() != x - y {
                st.fail(format!("C08/{}/wrong-value", name), format!("{} = {} expected {}", args(), r.usecs(), x - y));
            }
            // a - b = -(b - a), and b + (a - b) = a
            let rev = ts(y).sub_timestamp(ts(x));
            st.op(Op::DT_neg);
            if (-rev).usecs() != r.usecs() {
                st.fail(format!("C08/{}/antisymmetry", name), args());
            }
            st.op(Op::TS_add_interval_dt);
            match ts(y).add_interval_dt(r) {
                Ok(v) if v.usecs() == x => {}
                other => st.fail(format!("C08/{}/difference-law", name), format!("{}: y + (x - y) = {:?}", args(), other.map(|v| v.usecs()))),
            }
        }
        K::YmAdd | K::YmSub => {
            let add = c.k == K::YmAdd;
            let op = if add { Op::YM_add } else { Op::YM_sub };
            st.op(op);
            let (x, y) = (ym(a), ym(b));
            let r = if add { x.add_interval_ym(y) } else { x.sub_interval_ym(y) };
            let exact = if add { a as i128 + b as i128 } else { a as i128 - b as i128 };
            if let Ok(v) = &r {
                let back = if add { v.sub_interval_ym(y) } else { v.add_interval_ym(y) };
                if back.as_ref().map(|z| z.months() as i64).ok() != Some(a) {
                    st.fail(format!("C08/{}/inverse-law", name), format!("{} then inverse gives {:?}", args(), back.map(|z| z.months())));
                }
            }
            judge(st, op, name, r, exact, -(YM_LIM as i64), YM_LIM as i64, &args);
        }
        K::DtAdd | K::DtSub => {
            let add = c.k == K::DtAdd;
            let op = if add { Op::DT_add } else { Op::DT_sub };
            st.op(op);
            let (x, y) = (dt(a), dt(b));
            let r = if add { x.add_interval_dt(y) } else { x.sub_interval_dt(y) };
            let exact = if add { a as i128 + b as i128 } else { a as i128 - b as i128 };
            if let Ok(v) = &r {
                let back = if add { v.sub_interval_dt(y) } else { v.add_interval_dt(y) };
                if back.as_ref().map(|z| z.usecs()).ok() != Some(a) {
                    st.fail(format!("C08/{}/inverse-law", name), format!("{} then inverse gives {:?}", args(), back.map(|z| z.usecs())));
                }
            }
            judge(st, op, name, r, exact, -DT_LIM, DT_LIM, &args);
        }
        K::DtSubTime => {
            st.op(Op::DT_sub_time);
            let r = dt(a).sub_time(tm(b));
            judge(st, Op::DT_sub_time, name, r, a as i128 - b as i128, -DT_LIM, DT_LIM, &args);
        }
        K::TsAddDays | K::TsSubDays => {
            // fractional-day offset = offset rounded to the nearest microsecond
            let add = c.k == K::TsAddDays;
            let op = if add { Op::TS_add_days } else { Op::TS_sub_days };
            st.op(op);
            let x = c.f;
            let base = ts(a);
            let r = if add { base.add_days(x) } else { base.sub_days(x) };
            st.obs_r(op, &r);
            if !x.is_finite() {
                if r.is_ok() {
                    st.fail(format!("C08/{}/ok-for-non-finite-offset", name), format!("{}({}, {})", name, a, x));
                }
                return;
            }
            let eff = if add { x } else { -x };
            let q = abs_product(DAY_US as u128, eff); // |offset| in microseconds, exact
            let neg = decompose(eff).0;
            let span = (TS_MAX as i128 - TS_MIN as i128) as u128;
            let argf = || format!("{}({}, {:e})", name, a, x);
            match r {
                Ok(v) => {
                    let delta = v.usecs() as i128 - a as i128;
                    let mag = delta.unsigned_abs();
                    if delta != 0 && (delta < 0) != neg {
                        st.fail(format!("C08/{}/moves-the-wrong-way", name), format!("{} moved by {}", argf(), delta));
                    } else if !q.nearest_within(mag, 53) {
                        st.fail(format!("C08/{}/not-nearest-microsecond", name), format!("{} moved by {} us, exact offset {:e} us", argf(), delta, q.approx()));
                    } else if q.lt_int(1u128 << 52) {
                        // below 2^52 the double product is within 1/2 ulp <= 1/4, so the nearest integer is determined unless it is a near-tie
                        let _ = span;
                    }
                }
                Err(_) => {
                    // must be genuinely outside: exact result beyond the range by more than the tolerance
                    let room: i128 = if neg { a as i128 - TS_MIN as i128 } else { TS_MAX as i128 - a as i128 };
                    // in range for sure when |offset| * (1 + 2^-52) < room - 1 (double-precision product, then rounding)
                    if room >= 2 && !q.int_le_scaled_up((room - 1) as u128, 52) {
                        st.fail(format!("C08/{}/err-although-exact-result-in-range", name), format!("{}: exact offset {:e} us, room {}", argf(), q.approx(), room));
                    }
                }
            }
        }
    }
}

pub fn run(ctx: &Ctx, st: &mut Stats) {
    let dates: Vec<i64> = date_pool().into_iter().map(|x| x as i64).collect();
    let tss = ts_pool();
    let times = time_pool();
    let yms: Vec<i64> = ym_pool().into_iter().map(|x| x as i64).collect();
    let dts = dt_pool();
    let i32s: Vec<i64> = i32_pool().into_iter().map(|x| x as i64).collect();
    let oras: Vec<i64> = tss.iter().map(|u| u.div_euclid(1_000_000) * 1_000_000).filter(|u| (TS_MIN..=ORA_MAX).contains(u)).collect();
    let thin = |v: &Vec<i64>, n: usize| -> Vec<i64> {
        if ctx.tier == Tier::San {
            v.iter().step_by((v.len() / n).max(1)).copied().collect()
        } else {
            v.clone()
        }
    };
    let (dates, tss, times, yms, dts, i32s, oras) = (thin(&dates, 12), thin(&tss, 20), thin(&times, 6), thin(&yms, 10), thin(&dts, 16), thin(&i32s, 12), thin(&oras, 12));

    // derived operands: intervals hitting both range edges exactly
    st.stratum("boundary/date x day-counts", true);
    for &d in &dates {
        let mut ks: Vec<i64> = i32s.clone();
        for t in [MIN_DAY as i64, MAX_DAY as i64, 0] {
            for e in [-1, 0, 1] {
                ks.push(t - d + e);
                ks.push(d - t + e);
            }
        }
        ks.sort();
        ks.dedup();
        for &k in &ks {
            if k >= i32::MIN as i64 && k <= i32::MAX as i64 {
                st.eval(&C::ab(K::DateAddDays, d, k), check);
                st.eval(&C::ab(K::DateSubDays, d, k), check);
            }
        }
    }
    st.stratum("boundary/date x date", true);
    for &x in &dates {
        for &y in &dates {
            st.eval(&C::ab(K::DateSubDate, x, y), check);
        }
    }
    let sub = |v: &Vec<i64>, n: usize| -> Vec<i64> { v.iter().step_by((v.len() / n).max(1)).copied().collect() };
    let tss_s = sub(&tss, ctx.tier.pick(10, 400, 3000));
    st.stratum("boundary/timestamp x interval_dt", true);
    for &x in &tss_s {
        let mut is: Vec<i64> = dts.clone();
        for t in [TS_MIN, TS_MAX, 0] {
            for e in [-1, 0, 1] {
                is.push(t - x + e);
                is.push(x - t + e);
            }
        }
        is.sort();
        is.dedup();
        for &i in &is {
            if i.abs() <= DT_LIM {
                st.eval(&C::ab(K::TsAddDt, x, i), check);
                st.eval(&C::ab(K::TsSubDt, x, i), check);
            }
        }
        for &t in &times {
            st.eval(&C::ab(K::TsAddTime, x, t), check);
            st.eval(&C::ab(K::TsSubTime, x, t), check);
        }
        for t in [TS_MAX - x, TS_MAX - x + 1, x - TS_MIN, x - TS_MIN + 1] {
            if (0..DAY_US).contains(&t) {
                st.eval(&C::ab(K::TsAddTime, x, t), check);
                st.eval(&C::ab(K::TsSubTime, x, t), check);
            }
        }
    }
    st.stratum("boundary/date x interval_dt,time", true);
    for &d in &dates {
        let mut is: Vec<i64> = dts.clone();
        for t in [TS_MIN, TS_MAX, 0] {
            for e in [-1, 0, 1] {
                is.push(t - d * DAY_US + e);
                is.push(d * DAY_US - t + e);
            }
        }
        for &i in &is {
            if i.abs() <= DT_LIM {
                st.eval(&C::ab(K::DateAddDt, d, i), check);
                st.eval(&C::ab(K::DateSubDt, d, i), check);
            }
        }
        for &t in &times {
            st.eval(&C::ab(K::DateAddTime, d, t), check);
            st.eval(&C::ab(K::DateSubTime, d, t), check);
        }
    }
    st.stratum("boundary/differences", true);
    let tss_d = sub(&tss, ctx.tier.pick(8, 150, 600));
    for &x in &tss_d {
        for &y in &tss_d {
            st.eval(&C::ab(K::TsSubTs, x, y), check);
        }
        for &d in &dates {
            st.eval(&C::ab(K::TsSubDate, x, d), check);
            st.eval(&C::ab(K::DateSubTs, d, x), check);
        }
    }
    let oras_s = sub(&oras, ctx.tier.pick(8, 120, 400));
    for &o in &oras_s {
        for &x in &tss_d {
            st.eval(&C::ab(K::OraSubTs, o, x), check);
            st.eval(&C::ab(K::TsOraSubDate, x, o), check);
        }
        for &t in &times {
            st.eval(&C::ab(K::OraAddTime, o, t), check);
            st.eval(&C::ab(K::OraSubTime, o, t), check);
        }
    }
    st.stratum("boundary/interval x interval", true);
    for &x in &yms {
        let mut ys = yms.clone();
        for t in [-(YM_LIM as i64), YM_LIM as i64] {
            for e in [-1, 0, 1] {
                ys.push(t - x + e);
                ys.push(x - t + e);
            }
        }
        for &y in &ys {
            if y.abs() <= YM_LIM as i64 {
                st.eval(&C::ab(K::YmAdd, x, y), check);
                st.eval(&C::ab(K::YmSub, x, y), check);
            }
        }
    }
    for &x in &dts {
        let mut ys = dts.clone();
        for t in [-DT_LIM, DT_LIM] {
            for e in [-1i64, 0, 1] {
                if let Some(v) = t.checked_sub(x).and_then(|v| v.checked_add(e)) {
                    ys.push(v)
                }
                if let Some(v) = x.checked_sub(t).and_then(|v| v.checked_add(e)) {
                    ys.push(v)
                }
            }
        }
        for &y in &ys {
            if y.abs() <= DT_LIM {
                st.eval(&C::ab(K::DtAdd, x, y), check);
                st.eval(&C::ab(K::DtSub, x, y), check);
            }
        }
        for &t in &times {
            st.eval(&C::ab(K::DtSubTime, x, t), check);
        }
        for t in [x as i128 + DT_LIM as i128, x as i128 + DT_LIM as i128 + 1, x as i128 + DT_LIM as i128 - 1] {
            if (0..DAY_US as i128).contains(&t) {
                st.eval(&C::ab(K::DtSubTime, x, t as i64), check);
            }
        }
    }
    // fractional days
    st.stratum("boundary/timestamp x fractional-days", true);
    let fs = f64_pool();
    for &x in &tss_s {
        for &f in &fs {
            st.eval(&C::af(K::TsAddDays, x, f), check);
            st.eval(&C::af(K::TsSubDays, x, f), check);
        }
        // offsets reaching the edges +- a microsecond, expressed in days
        for t in [TS_MIN, TS_MAX] {
            for e in [-2i64, -1, 0, 1, 2] {
                let f = ((t - x + e) as f64) / DAY_US as f64;
                st.eval(&C::af(K::TsAddDays, x, f), check);
                st.eval(&C::af(K::TsSubDays, x, -f), check);
            }
        }
    }
    cold_threads(st, "history: first call on a fresh thread (hostile and ordinary fractional-day offsets, integer operations)", {
        let mut v = vec![];
        for f in [f64::NAN, -f64::NAN, f64::INFINITY, f64::NEG_INFINITY, 0.0, -0.0, 1.0, 0.5, 1e300, 1e-300] {
            for base in [0i64, 1, -1, TS_MAX, TS_MIN, 946_684_800_000_000] {
                v.push(C::af(K::TsAddDays, base, f));
                v.push(C::af(K::TsSubDays, base, f));
            }
        }
        for &k in K::ALL {
            if !matches!(k, K::TsAddDays | K::TsSubDays) {
                v.push(C::ab(k, 0, 0));
                v.push(C::ab(k, 1_000_000, 1_000_000));
            }
        }
        v
    }, check);
    // history: a fractional-day offset, then a call that fails (non-finite / far out of range offset), then the first again
    let nhf = ctx.tier.pick(200, 200_000, 2_000_000);
    ctx.par(st, "history: A, a failing offset (NaN, infinite, 1e300, out of range), A", false, 0, nhf, |st, i, rng| {
        let base = rng.range_i64(TS_MIN, TS_MAX);
        let f = rand_f64(rng);
        let k = if i % 2 == 0 { K::TsAddDays } else { K::TsSubDays };
        let bad = *rng.pick(&[f64::NAN, f64::INFINITY, f64::NEG_INFINITY, 1e300, -1e300, 4e6, -4e6, f64::MAX]);
        let (a, b) = (C::af(k, base, f), C::af(if rng.chance(1, 2) { K::TsAddDays } else { K::TsSubDays }, if rng.chance(1, 2) { base } else { rng.range_i64(TS_MIN, TS_MAX) }, bad));
        st.eval_hist(mix(a.hash(3), b.hash(5)), vec![a, b, a, b, b, a], check);
    });
    // seeded random operands
    let n = ctx.tier.pick(2_000, 3_000_000, ctx.big(60_000_000, 500_000_000));
    ctx.par(st, "random/all-linear-ops", false, 0, n, |st, _, rng| {
        let k = *rng.pick(K::ALL);
        let rd = |r: &mut Rng| r.range_i64(MIN_DAY as i64, MAX_DAY as i64);
        let rts = |r: &mut Rng| r.range_i64(TS_MIN, TS_MAX);
        let rtm = |r: &mut Rng| if r.chance(1, 8) { *r.pick(&[0, 1, DAY_US - 1]) } else { r.range_i64(0, DAY_US - 1) };
        let rdt = |r: &mut Rng| match r.below(4) {
            0 => r.range_i64(-DT_LIM, DT_LIM),
            1 => r.range_i64(-3 * DAY_US, 3 * DAY_US),
            _ => r.range_i64(TS_MIN - TS_MAX, TS_MAX - TS_MIN),
        };
        let rym = |r: &mut Rng| if r.chance(1, 2) { r.range_i64(-(YM_LIM as i64), YM_LIM as i64) } else { r.range_i64(-200_000, 200_000) };
        let rora = |r: &mut Rng| r.range_i64(TS_MIN / 1_000_000, ORA_MAX / 1_000_000) * 1_000_000;
        let c = match k {
            K::DateAddDays | K::DateSubDays => C::ab(k, rd(rng), if rng.chance(1, 6) { rng.range_i64(i32::MIN as i64, i32::MAX as i64) } else { rng.range_i64(-4_000_000, 4_000_000) }),
            K::DateSubDate => C::ab(k, rd(rng), rd(rng)),
            K::DateAddDt | K::DateSubDt => C::ab(k, rd(rng), rdt(rng)),
            K::DateAddTime | K::DateSubTime => C::ab(k, rd(rng), rtm(rng)),
            K::DateSubTs => C::ab(k, rd(rng), rts(rng)),
            K::TsAddDt | K::TsSubDt => C::ab(k, rts(rng), rdt(rng)),
            K::TsAddTime | K::TsSubTime => C::ab(k, rts(rng), rtm(rng)),
            K::TsSubTs => C::ab(k, rts(rng), rts(rng)),
            K::TsSubDate => C::ab(k, rts(rng), rd(rng)),
            K::TsAddDays | K::TsSubDays => {
                let f = match rng.below(5) {
                    0 => rand_f64(rng),
                    1 => rng.range_i64(-4_000_000, 4_000_000) as f64,
                    2 => rng.range_i64(-4_000_000 * 86_400, 4_000_000 * 86_400) as f64 / 86_400.0,
                    _ => rng.range_i64(-3 * DAY_US, 3 * DAY_US) as f64 / DAY_US as f64,
                };
                C::af(k, rts(rng), f)
            }
            K::YmAdd | K::YmSub => C::ab(k, rym(rng), rym(rng)),
            K::DtAdd | K::DtSub => C::ab(k, rng.range_i64(-DT_LIM, DT_LIM), rng.range_i64(-DT_LIM, DT_LIM)),
            K::DtSubTime => C::ab(k, rng.range_i64(-DT_LIM, DT_LIM), rtm(rng)),
            K::OraAddTime | K::OraSubTime => C::ab(k, rora(rng), rtm(rng)),
            K::OraSubTs => C::ab(k, rora(rng), rts(rng)),
            K::TsOraSubDate => C::ab(k, rts(rng), rora(rng)),
        };
        { let (an, td, ks) = crate::primers::g_context(c.a, c.b); crate::primers::eval_sched(st, rng, c.hash(k as u64 + 100), &c, &an, td, &ks, check); }
    });
}

pub fn replay(v: &Value, st: &mut Stats) -> bool {
    match K::from_name(&jstr(v, "kind")) {
        Some(k) => {
            st.eval(&C { k, a: ji64(v, "a"), b: ji64(v, "b"), c: ji64(v, "c"), f: jf64(v, "f") }, check);
            true
        }
        None => false,
    }
}
