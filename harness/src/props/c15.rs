//! C15 - serialization round-trips and deserialization never yields an out-of-range value.
use crate::cal::cal;
use crate::core::*;
use crate::props::c04::rand_value;
use crate::props::c05::{obs_lv, CLOCK};
use crate::spell::*;
use crate::tok::*;
use serde_json::{json, Value};
use sqldatetime::{Date, IntervalDT, IntervalYM, OracleDate, Time, Timestamp};

#[derive(Clone)]
pub enum S {
    Rt(V),
    DecBin(Ty, i64),
    DecBinBytes(Ty, Vec<u8>),
    DecJson(Ty, String),
    /// history: a serialization whose output sink fails after `cap` bytes, then an ordinary round trip of the second value
    AfterFail(V, usize, V),
    /// the canonical text of a value, decoded without ever having been encoded by this process or thread first
    DecCanon(V),
    /// raw bytes handed to the visitors (formats that deliver text as bytes): valid text, cut or damaged UTF-8
    DecBytes(Ty, Vec<u8>),
    /// history: a serialization whose writer panics (caller code; the panic is contained), then an ordinary round trip
    AfterPanic(V, V),
}
struct PanickingWriter;
impl std::io::Write for PanickingWriter {
    fn write(&mut self, _: &[u8]) -> std::io::Result<usize> {
        panic!("the writer panics (harness, contained)")
    }
    fn flush(&mut self) -> std::io::Result<()> {
        Ok(())
    }
}
/// a sink that accepts `cap` bytes and then reports an I/O error (a closed socket, a full buffer)
struct LimitedWriter {
    cap: usize,
}
impl std::io::Write for LimitedWriter {
    fn write(&mut self, b: &[u8]) -> std::io::Result<usize> {
        if b.len() > self.cap {
            self.cap = 0;
            return Err(std::io::Error::new(std::io::ErrorKind::BrokenPipe, "sink is full"));
        }
        self.cap -= b.len();
        Ok(b.len())
    }
    fn flush(&mut self) -> std::io::Result<()> {
        Ok(())
    }
}
fn ser_into_limited(lv: &LV, cap: usize) -> bool {
    let w = LimitedWriter { cap };
    match lv {
        LV::Date(x) => serde_json::to_writer(w, x).is_ok(),
        LV::Time(x) => serde_json::to_writer(w, x).is_ok(),
        LV::Ts(x) => serde_json::to_writer(w, x).is_ok(),
        LV::Ora(x) => serde_json::to_writer(w, x).is_ok(),
        LV::YM(x) => serde_json::to_writer(w, x).is_ok(),
        LV::DT(x) => serde_json::to_writer(w, x).is_ok(),
    }
}
impl Case for S {
    fn to_json(&self) -> Value {
        match self {
            S::Rt(v) => json!({"kind": "roundtrip", "value": v.to_json(), "show": v.show()}),
            S::DecBin(ty, raw) => json!({"kind": "decode-binary-integer", "type": ty.name(), "raw": raw}),
            S::DecBinBytes(ty, b) => json!({"kind": "decode-binary-bytes", "type": ty.name(), "bytes": b}),
            S::DecJson(ty, t) => json!({"kind": "decode-json", "type": ty.name(), "json": t}),
            S::DecCanon(v) => json!({"kind": "decode-canonical-text", "value": v.to_json(), "show": v.show()}),
            S::DecBytes(ty, b) => json!({"kind": "decode-bytes-visitor", "type": ty.name(), "bytes": b}),
            S::AfterPanic(a, b) => json!({"kind": "roundtrip-after-panicking-writer", "first": a.to_json(), "first_show": a.show(), "value": b.to_json(), "show": b.show()}),
            S::AfterFail(a, cap, b) => json!({"kind": "roundtrip-after-failed-write", "first": a.to_json(), "first_show": a.show(), "sink_capacity": cap, "value": b.to_json(), "show": b.show()}),
        }
    }
}

pub fn layout(ty: Ty) -> &'static str {
    match ty {
        Ty::Date => "YYYY-MM-DD",
        Ty::Time => "HH24:MI:SS.FF6",
        Ty::Ts => "YYYY-MM-DD HH24:MI:SS.FF6",
        Ty::Ora => "YYYY-MM-DD HH24:MI:SS",
        Ty::YM => "YYYY-MM",
        Ty::DT => "DD HH24:MI:SS.FF6",
    }
}
fn is32(ty: Ty) -> bool {
    matches!(ty, Ty::Date | Ty::YM)
}

fn ser(lv: &LV) -> (Result<String, String>, Result<Vec<u8>, String>) {
    macro_rules! both {
        ($x:expr) => {
            (serde_json::to_string($x).map_err(|e| e.to_string()), bincode::serialize($x).map_err(|e| e.to_string()))
        };
    }
    match lv {
        LV::Date(x) => both!(x),
        LV::Time(x) => both!(x),
        LV::Ts(x) => both!(x),
        LV::Ora(x) => both!(x),
        LV::YM(x) => both!(x),
        LV::DT(x) => both!(x),
    }
}
fn de_json(ty: Ty, s: &str) -> Result<LV, String> {
    Ok(match ty {
        Ty::Date => LV::Date(serde_json::from_str::<Date>(s).map_err(|e| e.to_string())?),
        Ty::Time => LV::Time(serde_json::from_str::<Time>(s).map_err(|e| e.to_string())?),
        Ty::Ts => LV::Ts(serde_json::from_str::<Timestamp>(s).map_err(|e| e.to_string())?),
        Ty::Ora => LV::Ora(serde_json::from_str::<OracleDate>(s).map_err(|e| e.to_string())?),
        Ty::YM => LV::YM(serde_json::from_str::<IntervalYM>(s).map_err(|e| e.to_string())?),
        Ty::DT => LV::DT(serde_json::from_str::<IntervalDT>(s).map_err(|e| e.to_string())?),
    })
}
fn de_bin(ty: Ty, b: &[u8]) -> Result<LV, String> {
    Ok(match ty {
        Ty::Date => LV::Date(bincode::deserialize::<Date>(b).map_err(|e| e.to_string())?),
        Ty::Time => LV::Time(bincode::deserialize::<Time>(b).map_err(|e| e.to_string())?),
        Ty::Ts => LV::Ts(bincode::deserialize::<Timestamp>(b).map_err(|e| e.to_string())?),
        Ty::Ora => LV::Ora(bincode::deserialize::<OracleDate>(b).map_err(|e| e.to_string())?),
        Ty::YM => LV::YM(bincode::deserialize::<IntervalYM>(b).map_err(|e| e.to_string())?),
        Ty::DT => LV::DT(bincode::deserialize::<IntervalDT>(b).map_err(|e| e.to_string())?),
    })
}
fn lv_in_range(lv: &LV) -> bool {
    match lv {
        LV::Date(x) => x.in_range(),
        LV::Time(x) => x.in_range(),
        LV::Ts(x) => x.in_range(),
        LV::Ora(x) => x.in_range(),
        LV::YM(x) => x.in_range(),
        LV::DT(x) => x.in_range(),
    }
}
fn raw_in_range(ty: Ty, raw: i64) -> bool {
    match ty {
        Ty::Date => (MIN_DAY as i64..=MAX_DAY as i64).contains(&raw),
        Ty::Time => (0..DAY_US).contains(&raw),
        Ty::Ts => (TS_MIN..=TS_MAX).contains(&raw),
        Ty::Ora => (TS_MIN..=ORA_MAX).contains(&raw) && raw.rem_euclid(1_000_000) == 0,
        Ty::YM => (-(YM_LIM as i64)..=YM_LIM as i64).contains(&raw),
        Ty::DT => (-DT_LIM..=DT_LIM).contains(&raw),
    }
}

pub fn check(st: &mut Stats, c: &S) {
    crate::props::c05::pin_clock();
    match c {
        S::DecCanon(v) => {
            let ty = v.ty();
            let toks = tokenize(layout(ty).as_bytes()).expect("layout");
            let text = format!("\"{}\"", render(v, &toks).expect("layout applies"));
            st.op(Op::S_json_de);
            match (de_json(ty, &text), v.to_lib()) {
                (Ok(back), Some(lv)) => {
                    obs_lv(st, Op::S_json_de, &back);
                    if back.raw() != lv.raw() {
                        st.fail(format!("C15/{}/json/canonical-text-decodes-to-another-value", ty.name()), format!("{} -> {}", text, back.to_v().show()));
                    }
                }
                (Err(e), Some(_)) => st.fail(format!("C15/{}/json/canonical-text-rejected", ty.name()), format!("{} -> {}", text, e)),
                _ => st.skipped += 1,
            }
        }
        S::DecBytes(ty, b) => {
            use serde::de::value::{BytesDeserializer, Error as VE};
            use serde::Deserialize;
            st.op(Op::S_json_de);
            let de = || BytesDeserializer::<VE>::new(b);
            let r: Result<LV, VE> = match ty {
                Ty::Date => Date::deserialize(de()).map(LV::Date),
                Ty::Time => Time::deserialize(de()).map(LV::Time),
                Ty::Ts => Timestamp::deserialize(de()).map(LV::Ts),
                Ty::Ora => OracleDate::deserialize(de()).map(LV::Ora),
                Ty::YM => IntervalYM::deserialize(de()).map(LV::YM),
                Ty::DT => IntervalDT::deserialize(de()).map(LV::DT),
            };
            if let Ok(lv) = r {
                obs_lv(st, Op::S_json_de, &lv);
                if !lv_in_range(&lv) {
                    st.fail("C15/decode/out-of-range-value", format!("{} bytes {:?} decoded to raw {}", ty.name(), b, lv.raw()));
                }
            }
        }
        S::AfterPanic(a, b) => {
            if let Some(lv) = a.to_lib() {
                st.op(Op::S_json_ser);
                let _ = guard(move || match lv {
                    LV::Date(x) => serde_json::to_writer(PanickingWriter, &x).is_ok(),
                    LV::Time(x) => serde_json::to_writer(PanickingWriter, &x).is_ok(),
                    LV::Ts(x) => serde_json::to_writer(PanickingWriter, &x).is_ok(),
                    LV::Ora(x) => serde_json::to_writer(PanickingWriter, &x).is_ok(),
                    LV::YM(x) => serde_json::to_writer(PanickingWriter, &x).is_ok(),
                    LV::DT(x) => serde_json::to_writer(PanickingWriter, &x).is_ok(),
                });
                st.bump("serializations into a panicking writer (contained)");
            }
            check(st, &S::Rt(*b));
        }
        S::AfterFail(a, cap, b) => {
            if let Some(lv) = a.to_lib() {
                st.op(Op::S_json_ser);
                if ser_into_limited(&lv, *cap) {
                    st.bump("writes into the limited sink that fitted");
                } else {
                    st.bump("writes into the limited sink that failed");
                }
            }
            check(st, &S::Rt(*b));
        }
        S::Rt(v) => {
            let lv = match v.to_lib() {
                Some(x) => x,
                None => {
                    st.skipped += 1;
                    return;
                }
            };
            let ty = v.ty();
            st.op(Op::S_json_ser);
            st.op(Op::S_bin_ser);
            let (js, bin) = ser(&lv);
            // human readable: fixed layout, then back
            match js {
                Ok(text) => {
                    let toks = tokenize(layout(ty).as_bytes()).expect("layout");
                    let exp = format!("\"{}\"", render(v, &toks).expect("layout applies"));
                    if text != exp {
                        st.fail(format!("C15/{}/json/layout", ty.name()), format!("{} serialized as {} expected {}", v.show(), text, exp));
                    }
                    st.op(Op::S_json_de);
                    match de_json(ty, &text) {
                        Ok(back) => {
                            obs_lv(st, Op::S_json_de, &back);
                            if back.raw() != lv.raw() {
                                st.fail(format!("C15/{}/json/roundtrip-differs", ty.name()), format!("{} -> {} -> {}", v.show(), text, back.to_v().show()));
                            }
                        }
                        Err(e) => st.fail(format!("C15/{}/json/roundtrip-fails", ty.name()), format!("{} -> {} -> {}", v.show(), text, e)),
                    }
                }
                Err(e) => st.fail(format!("C15/{}/json/serialize-fails", ty.name()), format!("{}: {}", v.show(), e)),
            }
            // the compact form under the other integer encodings of bincode (varint + zig-zag, big endian): each must
            // round-trip on its own terms
            {
                use bincode::Options;
                macro_rules! rt_opts {
                    ($x:expr, $t:ty, $wrap:expr) => {{
                        let var = bincode::options().serialize($x).ok().and_then(|b| bincode::options().deserialize::<$t>(&b).ok()).map($wrap);
                        let big = bincode::options().with_fixint_encoding().with_big_endian().serialize($x).ok().and_then(|b| bincode::options().with_fixint_encoding().with_big_endian().deserialize::<$t>(&b).ok()).map($wrap);
                        // inside a container (the item after it must still be found where the encoding says)
                        let seq = bincode::serialize(&($x, 7u8, $x)).ok().and_then(|b| bincode::deserialize::<($t, u8, $t)>(&b).ok()).map(|t| (($wrap)(t.0), t.1, ($wrap)(t.2)));
                        (var, big, seq)
                    }};
                }
                let (var, big, seq) = match &lv {
                    LV::Date(x) => rt_opts!(x, Date, LV::Date),
                    LV::Time(x) => rt_opts!(x, Time, LV::Time),
                    LV::Ts(x) => rt_opts!(x, Timestamp, LV::Ts),
                    LV::Ora(x) => rt_opts!(x, OracleDate, LV::Ora),
                    LV::YM(x) => rt_opts!(x, IntervalYM, LV::YM),
                    LV::DT(x) => rt_opts!(x, IntervalDT, LV::DT),
                };
                st.opn(Op::S_bin_ser, 3);
                st.opn(Op::S_bin_de, 3);
                if var.map(|b| b.raw()) != Some(lv.raw()) {
                    st.fail(format!("C15/{}/binary/varint-roundtrip-differs", ty.name()), format!("{} -> {:?}", v.show(), var.map(|b| b.raw())));
                }
                if big.map(|b| b.raw()) != Some(lv.raw()) {
                    st.fail(format!("C15/{}/binary/big-endian-roundtrip-differs", ty.name()), format!("{} -> {:?}", v.show(), big.map(|b| b.raw())));
                }
                match seq {
                    Some((a, 7, b)) if a.raw() == lv.raw() && b.raw() == lv.raw() => {}
                    other => st.fail(format!("C15/{}/binary/roundtrip-inside-a-tuple-differs", ty.name()), format!("{} -> {:?}", v.show(), other.map(|t| (t.0.raw(), t.1, t.2.raw())))),
                }
            }
            // compact binary: the raw count, little endian, then back
            match bin {
                Ok(bytes) => {
                    let exp: Vec<u8> = if is32(ty) { (lv.raw() as i32).to_le_bytes().to_vec() } else { lv.raw().to_le_bytes().to_vec() };
                    if bytes != exp {
                        st.fail(format!("C15/{}/binary/not-the-raw-count", ty.name()), format!("{} -> {:?} expected {:?}", v.show(), bytes, exp));
                    }
                    st.op(Op::S_bin_de);
                    match de_bin(ty, &bytes) {
                        Ok(back) => {
                            obs_lv(st, Op::S_bin_de, &back);
                            if back.raw() != lv.raw() {
                                st.fail(format!("C15/{}/binary/roundtrip-differs", ty.name()), format!("{} -> {:?} -> {}", v.show(), bytes, back.to_v().show()));
                            }
                        }
                        Err(e) => st.fail(format!("C15/{}/binary/roundtrip-fails", ty.name()), format!("{} -> {:?} -> {}", v.show(), bytes, e)),
                    }
                }
                Err(e) => st.fail(format!("C15/{}/binary/serialize-fails", ty.name()), format!("{}: {}", v.show(), e)),
            }
        }
        S::DecBin(ty, raw) => {
            if is32(*ty) && (*raw < i32::MIN as i64 || *raw > i32::MAX as i64) {
                st.skipped += 1;
                return;
            }
            let bytes: Vec<u8> = if is32(*ty) { (*raw as i32).to_le_bytes().to_vec() } else { raw.to_le_bytes().to_vec() };
            st.op(Op::S_bin_de);
            match de_bin(*ty, &bytes) {
                Ok(lv) => {
                    obs_lv(st, Op::S_bin_de, &lv);
                    if !lv_in_range(&lv) {
                        st.fail("C15/decode/out-of-range-value", format!("{} binary payload {} decoded to raw {}", ty.name(), raw, lv.raw()));
                    } else if raw_in_range(*ty, *raw) && lv.raw() != *raw {
                        st.fail(format!("C15/{}/binary/decodes-to-another-value", ty.name()), format!("payload {} -> {}", raw, lv.raw()));
                    }
                }
                Err(e) => {
                    if raw_in_range(*ty, *raw) {
                        st.fail(format!("C15/{}/binary/rejects-valid-payload", ty.name()), format!("payload {} -> {}", raw, e));
                    }
                }
            }
        }
        S::DecBinBytes(ty, b) => {
            st.op(Op::S_bin_de);
            if let Ok(lv) = de_bin(*ty, b) {
                obs_lv(st, Op::S_bin_de, &lv);
                if !lv_in_range(&lv) {
                    st.fail("C15/decode/out-of-range-value", format!("{} binary bytes {:?} decoded to raw {}", ty.name(), b, lv.raw()));
                }
            }
        }
        S::DecJson(ty, text) => {
            st.op(Op::S_json_de);
            if let Ok(lv) = de_json(*ty, text) {
                obs_lv(st, Op::S_json_de, &lv);
                if !lv_in_range(&lv) {
                    st.fail("C15/decode/out-of-range-value", format!("{} JSON payload {} decoded to {} (raw {})", ty.name(), text, lv.to_v().show(), lv.raw()));
                }
            }
        }
    }
}

fn boundary_values(ty: Ty) -> Vec<V> {
    let d = |n: i32| {
        let (y, m, dd) = cal().of(n);
        (y, m, dd)
    };
    match ty {
        Ty::Date => [MIN_DAY, MIN_DAY + 1, -1, 0, 1, MAX_DAY - 1, MAX_DAY, 11_016].iter().map(|&n| { let (y, m, dd) = d(n); V::Date(y, m, dd) }).collect(),
        Ty::Time => vec![V::Time(0, 0, 0, 0), V::Time(0, 0, 0, 1), V::Time(23, 59, 59, 999_999), V::Time(12, 0, 0, 0), V::Time(9, 5, 3, 100_000)],
        Ty::Ts => vec![V::Ts(1, 1, 1, 0, 0, 0, 0), V::Ts(9999, 12, 31, 23, 59, 59, 999_999), V::Ts(1969, 12, 31, 23, 59, 59, 999_999), V::Ts(1970, 1, 1, 0, 0, 0, 0), V::Ts(2000, 2, 29, 12, 0, 0, 500_000)],
        Ty::Ora => vec![V::Ora(1, 1, 1, 0, 0, 0), V::Ora(9999, 12, 31, 23, 59, 59), V::Ora(1969, 12, 31, 23, 59, 59), V::Ora(1970, 1, 1, 0, 0, 0)],
        Ty::YM => vec![V::YM(false, 0, 0), V::YM(false, 0, 1), V::YM(true, 0, 1), V::YM(false, 178_000_000, 0), V::YM(true, 178_000_000, 0), V::YM(false, 177_999_999, 11), V::YM(true, 9999, 11), V::YM(false, 10_000, 0)],
        Ty::DT => vec![V::DT(false, 0, 0, 0, 0, 0), V::DT(false, 0, 0, 0, 0, 1), V::DT(true, 0, 0, 0, 0, 1), V::DT(false, 100_000_000, 0, 0, 0, 0), V::DT(true, 100_000_000, 0, 0, 0, 0), V::DT(false, 99_999_999, 23, 59, 59, 999_999), V::DT(true, 99_999_999, 23, 59, 59, 999_999), V::DT(false, 31, 0, 0, 0, 0), V::DT(true, 32, 1, 2, 3, 4)],
    }
}

/// all threads hit the not-yet-initialised static formatters at the same time
fn concurrent_first_use(st: &mut Stats, nthreads: usize) {
    use std::sync::{Arc, Barrier};
    let barrier = Arc::new(Barrier::new(nthreads));
    let vals: Vec<V> = ALL_TY.iter().flat_map(|t| boundary_values(*t).into_iter().take(3)).collect();
    let mut handles = vec![];
    for t in 0..nthreads {
        let b = barrier.clone();
        let vals = vals.clone();
        handles.push(std::thread::spawn(move || {
            let mut st = Stats::new();
            st.stratum("concurrent first use of the static formatters", true);
            b.wait();
            for k in 0..vals.len() {
                let v = vals[(k + t) % vals.len()];
                st.eval(&S::Rt(v), check);
            }
            st.finish();
            st
        }));
    }
    for h in handles {
        match h.join() {
            Ok(s) => st.merge(s),
            Err(_) => st.inconclusive.push("a thread of the concurrent-first-use stratum died".into()),
        }
    }
}

pub fn run(ctx: &Ctx, st: &mut Stats) {
    cal();
    // must be first: the statics are still uninitialised in this process
    concurrent_first_use(st, ctx.tier.pick(4, 8, 16));
    st.stratum("boundary values of all six types", true);
    for ty in ALL_TY {
        for v in boundary_values(ty) {
            st.eval(&S::Rt(v), check);
        }
    }
    // all dates, all seconds
    let stride = ctx.tier.pick(400_009, ctx.q(11, 1), 1);
    ctx.par(st, "all dates (Date) through JSON and bincode", true, 0, (N_DAYS as i64 + stride - 1) / stride, |st, i, _| {
        let (y, m, d) = cal().of(MIN_DAY + (i * stride) as i32);
        st.eval(&S::Rt(V::Date(y, m, d)), check);
    });
    if stride == 1 {
        st.mark_exhaustive("all dates (Date) through JSON and bincode", "all 3,652,059 dates");
    }
    let sstride = ctx.tier.pick(9001, 1, 1);
    ctx.par(st, "all seconds of the day (Time) through JSON and bincode", true, 0, 86_400 / sstride, |st, i, _| {
        let s = i * sstride;
        st.eval(&S::Rt(V::Time((s / 3600) as u32, (s / 60 % 60) as u32, (s % 60) as u32, ((s * 7919) % 1_000_000) as u32)), check);
    });
    if sstride == 1 {
        st.mark_exhaustive("all seconds of the day (Time) through JSON and bincode", "all 86,400 seconds (with varying microseconds)");
    }
    // pool dates x bit-structured times as Timestamp / OracleDate / Time
    let bts = crate::pools::bit_times();
    let dpool = crate::pools::date_pool();
    let (bts_ref, dpool_ref) = (&bts, &dpool);
    let bstep = ctx.tier.pick(4999, 11, 1);
    ctx.par(st, "pool dates x bit-structured times (Timestamp, OracleDate, Time) through JSON and bincode", true, 0, (dpool.len() * bts.len()) as i64 / bstep, |st, i, _| {
        let i = (i * bstep) as usize;
        let (y, m, d) = cal().of(dpool_ref[i / bts_ref.len()]);
        let t = bts_ref[i % bts_ref.len()];
        let (h, mi, s, us) = ((t / 3_600_000_000) as u32, (t / 60_000_000 % 60) as u32, (t / 1_000_000 % 60) as u32, (t % 1_000_000) as u32);
        st.eval(&S::Rt(V::Ts(y, m, d, h, mi, s, us)), check);
        st.eval(&S::Rt(V::Ora(y, m, d, h, mi, s)), check);
        if i / bts_ref.len() == 0 {
            st.eval(&S::Rt(V::Time(h, mi, s, us)), check);
        }
    });
    let n = ctx.tier.pick(36, 600_000, ctx.big(12_000_000, 80_000_000));
    ctx.par(st, "random values of all six types through JSON and bincode", false, 0, n, |st, i, rng| {
        let v = rand_value(rng, ALL_TY[(i % 6) as usize]);
        let c = S::Rt(v);
        let anchors: Vec<i64> = v.to_lib().and_then(|x| x.day_number()).into_iter().collect();
        crate::primers::eval_sched(st, rng, hash64(v.show().as_bytes()), &c, &anchors, 0, &[], check);
    });
    // ---- history monitors: the same instant / the same payload through different types back to back; failed writes
    let nh = ctx.tier.pick(40, 200_000, 2_000_000);
    ctx.par(st, "history: same instant or same payload through two types back to back; a failed write before a round trip", false, 0, nh, |st, i, rng| {
        let x = match rng.below(3) {
            0 => rng.range_i64(TS_MIN, ORA_MAX),
            1 => rng.range_i64(TS_MIN, ORA_MAX) / 1_000_000 * 1_000_000,
            _ => rng.range_i64(-2, 2) * DAY_US + rng.range_i64(0, 86_399) * 1_000_000 + *rng.pick(&[0i64, 250_000, 500_000, 999_999]),
        };
        let x = x.clamp(TS_MIN, ORA_MAX);
        let (n, tod) = (x.div_euclid(DAY_US), x.rem_euclid(DAY_US));
        let (y, m, d) = cal().of(n as i32);
        let (h, mi, s, us) = ((tod / 3_600_000_000) as u32, (tod / 60_000_000 % 60) as u32, (tod / 1_000_000 % 60) as u32, (tod % 1_000_000) as u32);
        let ts = V::Ts(y, m, d, h, mi, s, us);
        let ora = V::Ora(y, m, d, h, mi, s);
        let date = V::Date(y, m, d);
        let time = V::Time(h, mi, s, us);
        let dt = V::DT(false, 0, h, mi, s, us);
        let vs = [ts, ora, date, time, dt];
        let hx = mix(x as u64, i as u64);
        match i % 4 {
            0 => {
                // two types, same instant, both orders
                let a = vs[rng.below(5) as usize];
                let b = vs[rng.below(5) as usize];
                st.eval_hist(hx, vec![S::Rt(a), S::Rt(b), S::Rt(a)], check);
            }
            1 => {
                // one payload decoded as two types
                let toks = tokenize(layout(Ty::Ts).as_bytes()).expect("layout");
                let text = format!("\"{}\"", render(&ts, &toks).expect("layout applies"));
                let text = if rng.chance(1, 2) { text } else { format!("\"{}\"", render(&ora, &tokenize(layout(Ty::Ora).as_bytes()).expect("layout")).expect("layout applies")) };
                let mut tys = [Ty::Ts, Ty::Ora, Ty::Date, Ty::Time, Ty::DT, Ty::YM];
                let k = rng.below(6) as usize;
                tys.swap(0, k);
                let k = 1 + rng.below(5) as usize;
                tys.swap(1, k);
                st.eval_hist(mix(hx, tys[0] as u64 * 8 + tys[1] as u64), vec![S::DecJson(tys[0], text.clone()), S::DecJson(tys[1], text.clone()), S::DecJson(tys[0], text)], check);
            }
            _ => {
                let a = vs[rng.below(5) as usize];
                let tyb = ALL_TY[rng.below(6) as usize];
                let b = if rng.chance(1, 2) { vs[rng.below(5) as usize] } else { rand_value(rng, tyb) };
                let cap = rng.below(34) as usize;
                if rng.chance(1, 4) {
                    st.eval_hist(mix(hx, 0xBAD), vec![S::AfterPanic(a, b), S::Rt(a)], check);
                } else {
                    st.eval_hist(mix(hx, cap as u64), vec![S::AfterFail(a, cap, b)], check);
                }
            }
        }
    });
    // canonical texts decoded cold (fresh threads: no encode before), and as ordinary cases
    cold_threads(st, "history: canonical text decoded as the first call of a fresh thread", {
        let mut v = vec![];
        for ty in ALL_TY {
            for x in boundary_values(ty).into_iter().take(6) {
                v.push(S::DecCanon(x));
            }
        }
        v
    }, check);
    let ncan = ctx.tier.pick(60, 200_000, 2_000_000);
    ctx.par(st, "canonical texts of random values decoded (no encode first)", false, 0, ncan, |st, i, rng| {
        let v = rand_value(rng, ALL_TY[(i % 6) as usize]);
        st.eval_h(hash64(v.show().as_bytes()), &S::DecCanon(v), check);
    });
    // long payloads with a multi-byte character at every byte offset (error paths that echo or cap the payload)
    let noff = ctx.tier.pick(12, 400, 1200);
    ctx.par(st, "decode: valid prefix + long tail with a multi-byte character at every offset", true, 0, noff * 6, |st, i, _| {
        let ty = ALL_TY[(i % 6) as usize];
        let off = (i / 6) as usize;
        for (prefix, ch) in [("2020", 'é'), ("2020-01-01 00:00:00", '日'), ("+1 ", '\u{1F600}'), ("", 'é')] {
            for fill in [' ', 'x', '-'] {
                let mut t = String::with_capacity(off + 24);
                t.push_str(prefix);
                while t.len() < off {
                    t.push(fill);
                }
                t.push(ch);
                t.push_str("-01-01");
                st.eval(&S::DecJson(ty, serde_json::to_string(&t).expect("json")), check);
            }
        }
    });
    // text delivered as bytes: valid, cut inside a multi-byte character, damaged
    let nby = ctx.tier.pick(60, 100_000, 1_000_000);
    ctx.par(st, "decode: byte payloads through the visitors (valid text, cut / damaged UTF-8)", false, 0, nby, |st, i, rng| {
        let ty = ALL_TY[(i % 6) as usize];
        let v = rand_value(rng, ty);
        let toks = tokenize(layout(ty).as_bytes()).expect("layout");
        let mut b = render(&v, &toks).expect("layout applies").into_bytes();
        match rng.below(6) {
            0 => {}
            1 => b.extend_from_slice(&"é".as_bytes()[..1]),
            2 => b.extend_from_slice(&"日".as_bytes()[..rng.range_i64(1, 2) as usize]),
            3 => b.extend_from_slice(&"\u{1F600}".as_bytes()[..rng.range_i64(1, 3) as usize]),
            4 => {
                let k = rng.below(b.len().max(1) as u64) as usize;
                if k < b.len() {
                    b[k] = rng.next() as u8;
                }
            }
            _ => {
                let k = rng.below(b.len() as u64 + 1) as usize;
                b.truncate(k);
                b.extend_from_slice(&[0xE2, 0x82]);
            }
        }
        st.eval_h(mix(hash64(&b), ty as u64), &S::DecBytes(ty, b), check);
    });
    // decoding raw integers at and around the limits and at the integer extremes
    st.stratum("decode: raw integers at limits +-1, extremes", true);
    for ty in ALL_TY {
        let (lo, hi): (i64, i64) = match ty {
            Ty::Date => (MIN_DAY as i64, MAX_DAY as i64),
            Ty::Time => (0, DAY_US - 1),
            Ty::Ts => (TS_MIN, TS_MAX),
            Ty::Ora => (TS_MIN, ORA_MAX),
            Ty::YM => (-(YM_LIM as i64), YM_LIM as i64),
            Ty::DT => (-DT_LIM, DT_LIM),
        };
        let mut raws: Vec<i64> = vec![0, 1, -1, 2, -2, 1 << 53, -(1 << 53), (1 << 53) + 1, 999_999, 1_000_000, 1_000_001, -999_999, -1_000_000, -1_000_001, 86_399_999_999, 86_400_000_000, 86_400_000_001];
        for b in [lo, hi] {
            for e in -3i64..=3 {
                raws.push(b.saturating_add(e));
            }
            for e in [1_000_000i64, -1_000_000, 999_999, -999_999, 500_000] {
                raws.push(b.saturating_add(e));
            }
        }
        for x in [i64::MIN, i64::MIN + 1, i64::MAX, i64::MAX - 1, i32::MIN as i64, i32::MAX as i64, i32::MIN as i64 - 1, i32::MAX as i64 + 1, u32::MAX as i64] {
            raws.push(x);
        }
        raws.sort();
        raws.dedup();
        let step = if ctx.tier == Tier::San { 5 } else { 1 };
        for r in raws.into_iter().step_by(step) {
            st.eval(&S::DecBin(ty, r), check);
        }
        // malformed binary payloads
        for b in [vec![], vec![0u8], vec![1, 2, 3], vec![0xff; 4], vec![0xff; 7], vec![0xff; 8], vec![0x80; 9], vec![0; 16]] {
            st.eval(&S::DecBinBytes(ty, b), check);
        }
    }
    let nd = ctx.tier.pick(36, 400_000, ctx.big(6_000_000, 60_000_000));
    ctx.par(st, "decode: random raw integers (uniform and near the range ends)", false, 0, nd, |st, i, rng| {
        let ty = ALL_TY[(i % 6) as usize];
        let raw = match rng.below(4) {
            0 => rng.next() as i64,
            1 => rng.range_i64(-(1 << 33), 1 << 33),
            2 => rng.range_i64(TS_MIN - DAY_US, TS_MAX + DAY_US),
            _ => {
                let b = *rng.pick(&[MIN_DAY as i64, MAX_DAY as i64, 0, DAY_US, TS_MIN, TS_MAX, ORA_MAX, YM_LIM as i64, -(YM_LIM as i64), DT_LIM, -DT_LIM]);
                b.saturating_add(rng.range_i64(-2_000_000, 2_000_000))
            }
        };
        st.eval_h(mix(raw as u64, ty as u64), &S::DecBin(ty, raw), check);
    });
    // malformed / perturbed JSON payloads
    st.stratum("decode: malformed JSON payloads", true);
    for ty in ALL_TY {
        let long = format!("\"{}\"", "9".repeat(40));
        let long2 = format!("\"2021-03-11{}\"", " ".repeat(200));
        let mut payloads: Vec<String> = ["null", "0", "1", "-1", "1e99", "true", "[]", "{}", "\"\"", "\" \"", "\"x\"", "[1,2]", "{\"a\":1}", "\"0000-00-00\"", "\"9999-12-32\"", "\"10000-01-01\"", "\"0000-01-01\"",
            "\"24:00:00.000000\"", "\"23:59:60.000000\"", "\"23:59:59.9999999\"", "\"9999-12-31 23:59:59.9999995\"", "\"9999-12-31 23:59:60\"", "\"9999-12-31 24:00:00\"", "\"+178000000-01\"", "\"-178000000-01\"", "\"+178000001-00\"", "\"+999999999-11\"",
            "\"+0000-12\"", "\"+100000000 00:00:00.000001\"", "\"-100000000 00:00:00.000001\"", "\"+100000001 00:00:00.000000\"", "\"+999999999 23:59:59.999999\"", "\"+1 24:00:00.000000\"", "\"-0 00:00:00.9999995\"",
            "\"+99999999 23:59:59.9999995\"", "\"-99999999 23:59:59.9999999\"", "\"2021-02-29\"", "\"1900-02-29 00:00:00\"", "\"2021-13-01\"", "\"2021-03-11T17:06:08\"", "\"2021-03-11 17:06:08.5\"", "\"2021-3-1\"", "\"  2021-03-11\"", "\"+2021-03-11\"",
            "\"-2021-03-11\"", "\"2021-03-11 \\u0000\"", "\"\\ud83d\\ude00\"", "\"日本\"", "\"2021-03-11x\"", "\"17:06:08\"", "\"17:06\"", "\"17\"", "\"+5\"", "\"-5\"", "\"+1-1\"", "\"1-1\"", "\"+1 1:1:1.1\"", "\"1 1:1:1\""]
            .iter().map(|s| s.to_string()).collect();
        payloads.push(long);
        payloads.push(long2);
        let step = if ctx.tier == Tier::San { 6 } else { 1 };
        for p in payloads.into_iter().step_by(step) {
            st.eval(&S::DecJson(ty, p), check);
        }
    }
    let nj = ctx.tier.pick(48, 400_000, ctx.big(6_000_000, 40_000_000));
    ctx.par(st, "decode: perturbed and leniently spelled JSON strings", false, 0, nj, |st, i, rng| {
        let ty = ALL_TY[(i % 6) as usize];
        let toks = tokenize(layout(ty).as_bytes()).expect("layout");
        let v = rand_value(rng, ty);
        let pert = if rng.chance(1, 2) {
            Some(*rng.pick(&[Pert::Month, Pert::Day, Pert::DayOverMonth, Pert::Hour, Pert::Minute, Pert::Second, Pert::YearZero, Pert::IntervalLimit, Pert::Garbage, Pert::Leftover]))
        } else {
            None
        };
        let extra = if rng.chance(1, 4) { Some(*rng.pick(&["5", "9", "99", "999", "4"])) } else { None };
        let lenient = rng.chance(1, 2);
        let sp = spell(rng, &v, &toks, &Opts { lenient, allow_cut: true, pert, extra_frac: extra });
        let mut text = sp.text;
        if rng.chance(1, 6) && !text.is_empty() {
            // byte-level damage: drop, duplicate or replace one character
            let pos = rng.below(text.len() as u64) as usize;
            if text.is_char_boundary(pos) && text.is_char_boundary(pos + 1) {
                match rng.below(3) {
                    0 => {
                        text.remove(pos);
                    }
                    1 => {
                        let ch = text.as_bytes()[pos] as char;
                        text.insert(pos, ch);
                    }
                    _ => text.replace_range(pos..pos + 1, *rng.pick(&["9", "0", "-", ":", " ", "x", "+"])),
                }
            }
        }
        let js = serde_json::to_string(&text).unwrap();
        let _ = denote(ty, &sp.given, CLOCK);
        st.eval_h(mix(hash64(js.as_bytes()), ty as u64), &S::DecJson(ty, js), check);
    });
}

pub fn replay(v: &Value, st: &mut Stats) -> bool {
    let ty = Ty::from_name(&jstr(v, "type"));
    let c = match jstr(v, "kind").as_str() {
        "roundtrip" => match v.get("value").and_then(V::from_json) {
            Some(x) => S::Rt(x),
            None => return false,
        },
        "decode-binary-integer" => S::DecBin(ty.unwrap_or(Ty::Date), ji64(v, "raw")),
        "decode-binary-bytes" => S::DecBinBytes(ty.unwrap_or(Ty::Date), v.get("bytes").and_then(|b| b.as_array()).map(|a| a.iter().map(|x| x.as_u64().unwrap_or(0) as u8).collect()).unwrap_or_default()),
        "decode-json" => S::DecJson(ty.unwrap_or(Ty::Date), jstr(v, "json")),
        "decode-canonical-text" => match v.get("value").and_then(V::from_json) {
            Some(x) => S::DecCanon(x),
            None => return false,
        },
        "decode-bytes-visitor" => S::DecBytes(ty.unwrap_or(Ty::Date), v.get("bytes").and_then(|b| b.as_array()).map(|a| a.iter().map(|x| x.as_u64().unwrap_or(0) as u8).collect()).unwrap_or_default()),
        "roundtrip-after-panicking-writer" => match (v.get("first").and_then(V::from_json), v.get("value").and_then(V::from_json)) {
            (Some(a), Some(b)) => S::AfterPanic(a, b),
            _ => return false,
        },
        "roundtrip-after-failed-write" => match (v.get("first").and_then(V::from_json), v.get("value").and_then(V::from_json)) {
            (Some(a), Some(b)) => S::AfterFail(a, ji64(v, "sink_capacity") as usize, b),
            _ => return false,
        },
        _ => return false,
    };
    st.eval(&c, check);
    true
}
