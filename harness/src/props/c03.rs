//! C03 - no safe public call panics, whatever its arguments. See c02.rs for the composition part.
use crate::core::*;
use crate::props::c02::compose;
use crate::props::c04::rand_value;
use crate::props::c19::ALPHABET;
use crate::spell::*;
use crate::tok::*;
use serde_json::{json, Value};
use sqldatetime::{Date, Formatter, IntervalDT, IntervalYM, OracleDate, Time, Timestamp};
use std::fmt::Write;

pub struct H<'a> {
    pub pic: &'a str,
    pub text: Option<&'a str>,
}
impl<'a> Case for H<'a> {
    fn to_json(&self) -> Value {
        json!({"kind": "hostile", "picture": self.pic, "text": self.text, "picture_len": self.pic.len()})
    }
}

fn probes() -> (Date, Time, Timestamp, OracleDate, IntervalYM, IntervalDT) {
    let d = Date::try_from_ymd(2021, 3, 11).unwrap();
    let t = Time::try_from_hms(17, 6, 8, 912_345).unwrap();
    (d, t, Timestamp::new(d, t), OracleDate::new(d, t), -IntervalYM::try_from_ym(12, 5).unwrap(), IntervalDT::try_from_dhms(45, 17, 6, 8, 912_345).unwrap())
}

/// compile the picture; if accepted, format a probe of every type into a text sink through both entry
/// points, and - if a text is given - parse it as every type. Any outcome but a panic is fine here.
pub fn check(st: &mut Stats, c: &H) {
    crate::props::c05::pin_clock();
    st.op(Op::F_try_new);
    let (d, t, ts, o, ym, dt) = probes();
    if let Some(text) = c.text {
        st.opn(Op::F_parse, 6);
        let _ = Date::parse(text, c.pic).map(|v| st.obs(Op::D_parse, &v));
        let _ = Time::parse(text, c.pic).map(|v| st.obs(Op::T_parse, &v));
        let _ = Timestamp::parse(text, c.pic).map(|v| st.obs(Op::TS_parse, &v));
        let _ = OracleDate::parse(text, c.pic).map(|v| st.obs(Op::O_parse, &v));
        let _ = IntervalYM::parse(text, c.pic).map(|v| st.obs(Op::YM_parse, &v));
        let _ = IntervalDT::parse(text, c.pic).map(|v| st.obs(Op::DT_parse, &v));
        return;
    }
    let f = match Formatter::try_new(c.pic) {
        Ok(f) => f,
        Err(_) => return,
    };
    st.opn(Op::F_format, 6);
    let mut s = String::new();
    let _ = f.format(d, &mut s);
    let _ = f.format(t, &mut s);
    let _ = f.format(ts, &mut s);
    let _ = f.format(o, &mut s);
    let _ = f.format(ym, &mut s);
    let _ = f.format(dt, &mut s);
    // the per-type entry point + Display into a sink: an inapplicable field must come back as fmt::Error, not as a panic
    s.clear();
    st.op(Op::D_format);
    if let Ok(x) = d.format(c.pic) {
        let _ = write!(s, "{}", x);
    }
    st.op(Op::T_format);
    if let Ok(x) = t.format(c.pic) {
        let _ = write!(s, "{}", x);
    }
    st.op(Op::TS_format);
    if let Ok(x) = ts.format(c.pic) {
        let _ = write!(s, "{}", x);
    }
    st.op(Op::O_format);
    if let Ok(x) = o.format(c.pic) {
        let _ = write!(s, "{}", x);
    }
    st.op(Op::YM_format);
    if let Ok(x) = ym.format(c.pic) {
        let _ = write!(s, "{}", x);
    }
    st.op(Op::DT_format);
    if let Ok(x) = dt.format(c.pic) {
        let _ = write!(s, "{}", x);
    }
}

/// Display of the value returned by `<type>::format(picture)` under a caller-chosen format spec (alignment, width,
/// precision, zero / sign flags): whatever the flags, the call returns normally.
pub struct Spec<'a> {
    pub pic: &'a str,
    pub w: usize,
    pub p: usize,
}
impl<'a> Case for Spec<'a> {
    fn to_json(&self) -> Value {
        json!({"kind": "display-spec", "picture": self.pic, "width": self.w, "precision": self.p, "picture_len": self.pic.len()})
    }
}
pub fn check_spec(st: &mut Stats, c: &Spec) {
    crate::props::c05::pin_clock();
    let (d, t, ts, o, ym, dt) = probes();
    let (w, p) = (c.w, c.p);
    let mut s = String::new();
    macro_rules! all_specs {
        ($op:expr, $v:expr) => {{
            st.op($op);
            if let Ok(x) = $v.format(c.pic) {
                s.clear();
                let _ = write!(s, "{}", x);
                let plain = s.clone();
                let _ = write!(s, "{:w$}", x, w = w);
                let _ = write!(s, "{:.p$}", x, p = p);
                let _ = write!(s, "{:w$.p$}", x, w = w, p = p);
                let _ = write!(s, "{:<w$}", x, w = w);
                let _ = write!(s, "{:>w$.p$}", x, w = w, p = p);
                let _ = write!(s, "{:^w$}", x, w = w);
                let _ = write!(s, "{:*^w$.p$}", x, w = w, p = p);
                let _ = write!(s, "{:0w$}", x, w = w);
                let _ = write!(s, "{:+}", x);
                let _ = write!(s, "{:#}", x);
                // an unflagged rendering afterwards is still the plain text (no state left behind by the flagged ones)
                s.clear();
                let _ = write!(s, "{}", x);
                if s != plain {
                    st.fail("C03/display/plain-rendering-changes-after-flagged-renderings", format!("picture {:?}", c.pic));
                }
            }
        }};
    }
    all_specs!(Op::D_format, d);
    all_specs!(Op::T_format, t);
    all_specs!(Op::TS_format, ts);
    all_specs!(Op::O_format, o);
    all_specs!(Op::YM_format, ym);
    all_specs!(Op::DT_format, dt);
}

/// The two public enum conversions `Month::from(usize)` and `WeekDay::from(usize)`.
pub struct EnumConv {
    /// 0 = Month, 1 = WeekDay
    pub which: u8,
    pub k: usize,
}
impl Case for EnumConv {
    fn to_json(&self) -> Value {
        json!({"kind": "enum-from-usize", "type": if self.which == 0 { "Month" } else { "WeekDay" }, "k": self.k as u64})
    }
}
pub fn check_enum(st: &mut Stats, c: &EnumConv) {
    use sqldatetime::{Month, WeekDay};
    let (name, lim) = if c.which == 0 { ("Month", 12usize) } else { ("WeekDay", 7usize) };
    st.op(if c.which == 0 { Op::X_month_from_usize } else { Op::X_weekday_from_usize });
    let (which, k) = (c.which, c.k);
    // an inner boundary so that the finding is keyed by the call, not by a source line
    let r = guard(move || if which == 0 { Month::from(k) as usize } else { WeekDay::from(k) as usize });
    let inside = (1..=lim).contains(&k);
    match r {
        Ok(v) => {
            if inside && v != k {
                st.fail(format!("C03/{}::from(usize)/wrong-variant", name), format!("{}::from({}) is variant number {}", name, k, v));
            }
        }
        Err(p) => {
            if inside {
                st.fail(format!("C03/{}::from(usize)/panics-inside-1..={}", name, lim), format!("{}::from({}) panicked: {}", name, k, p));
            } else {
                // The conversion documents this panic ("# Panics: if out of range of 1..=lim") and the property quantifies
                // over the functions of the six date/time types: observed and counted, not judged.
                st.unspecified += 1;
                st.bump("documented panics of Month::from / WeekDay::from outside their domain (outside the quantifier, not judged)");
            }
        }
    }
}

/// An `AsRef<str>` argument whose text is not the same on every call (nothing obliges it to be): `first` on the
/// first `switch_at` calls, `later` afterwards.
pub struct Shifting<'a> {
    pub calls: std::cell::Cell<u32>,
    pub switch_at: u32,
    pub first: &'a str,
    pub later: &'a str,
}
impl<'a> AsRef<str> for Shifting<'a> {
    fn as_ref(&self) -> &str {
        let n = self.calls.get();
        self.calls.set(n + 1);
        if n < self.switch_at {
            self.first
        } else {
            self.later
        }
    }
}
pub struct Shift<'a> {
    pub pic: &'a str,
    pub first: &'a str,
    pub later: &'a str,
    pub switch_at: u32,
}
impl<'a> Case for Shift<'a> {
    fn to_json(&self) -> Value {
        json!({"kind": "shifting-text", "picture": self.pic, "first": self.first, "later": self.later, "switch_at": self.switch_at})
    }
}
pub fn check_shift(st: &mut Stats, c: &Shift) {
    crate::props::c05::pin_clock();
    let mk = || Shifting { calls: std::cell::Cell::new(0), switch_at: c.switch_at, first: c.first, later: c.later };
    st.opn(Op::F_parse, 7);
    let _ = Date::parse(mk(), c.pic).map(|v| st.obs(Op::D_parse, &v));
    let _ = Time::parse(mk(), c.pic).map(|v| st.obs(Op::T_parse, &v));
    let _ = Timestamp::parse(mk(), c.pic).map(|v| st.obs(Op::TS_parse, &v));
    let _ = OracleDate::parse(mk(), c.pic).map(|v| st.obs(Op::O_parse, &v));
    let _ = IntervalYM::parse(mk(), c.pic).map(|v| st.obs(Op::YM_parse, &v));
    let _ = IntervalDT::parse(mk(), c.pic).map(|v| st.obs(Op::DT_parse, &v));
    if let Ok(f) = Formatter::try_new(c.pic) {
        let _ = f.parse::<_, Timestamp>(mk()).map(|v| st.obs(Op::TS_parse, &v));
    }
}

pub const INPUT_ALPHABET: &[u8] = b"0129+-:./,; TAPMapmJFSuny";
pub const FIXED_PICTURES: &[&str] = &["YYYY-MM-DD", "YYYYMMDD", "DD/MM/YYYY", "YYYY DDD", "Y", "YY", "YYY", "MM", "MON", "MONTH", "DD", "DDD", "D", "DAY", "DY", "HH", "HH12", "HH24", "MI", "SS", "FF", "FF1", "FF3", "FF6", "FF9",
    "AM", "P.M.", "W", "WW", "T", "HH24:MI:SS", "HH:MI:SS AM", "HH24:MI:SS.FF", "YYYY-MM-DD HH24:MI:SS.FF", "YYYY-MM-DDTHH24:MI:SS", "DD HH24:MI:SS.FF6", "YYYY-MM", "MM-YYYY", "DY, DD MON YYYY", "A.M. HH12",
    "D DAY", "DDD D", "YYYY MONTH", ",", ";", "\\", "/", ".", "-", ":", " ", "   ", "SS.FF", "MI:SS", "DD HH24", "Y-MM-DD", "YY-MM-DD", "FF2SS", "DAYMONTH", "HH24MISS"];

pub fn run(ctx: &Ctx, st: &mut Stats) {
    // 1. every picture up to length L: compile + format six probe values through both entry points
    let maxlen = ctx.tier.pick(2, 4, 5);
    let a = ALPHABET.len() as i64;
    let san = ctx.tier == Tier::San;
    for len in 0..=maxlen {
        let total = a.pow(len as u32);
        let name = format!("pictures/enum-len{}", len);
        ctx.par(st, &name, true, 0, total, |st, i, _| {
            let mut buf = [0u8; 8];
            let mut x = i;
            for k in 0..len {
                buf[k] = ALPHABET[(x % a) as usize];
                x /= a;
            }
            let s = std::str::from_utf8(&buf[..len]).unwrap();
            if san && len == 2 && i % 3 != 0 {
                return;
            }
            st.eval(&H { pic: s, text: None }, check);
        });
        if ctx.shard.1 <= 1 {
            st.mark_exhaustive(&name, &format!("all {} strings of length {} over the {}-symbol picture alphabet, formatted for 6 probe values x 2 entry points", total, len, a));
        }
    }
    // 2. fixed pictures x every input string up to length L over the input alphabet, parsed as all six types
    let ilen = ctx.tier.pick(1, 3, 4);
    let b = INPUT_ALPHABET.len() as i64;
    for len in 0..=ilen {
        let total = b.pow(len as u32) * FIXED_PICTURES.len() as i64;
        let name = format!("inputs/enum-len{} x {} fixed pictures", len, FIXED_PICTURES.len());
        ctx.par(st, &name, true, 0, total, |st, i, _| {
            if san && i % 3 != 0 {
                return;
            }
            let pic = FIXED_PICTURES[(i % FIXED_PICTURES.len() as i64) as usize];
            let mut x = i / FIXED_PICTURES.len() as i64;
            let mut buf = [0u8; 8];
            for k in 0..len {
                buf[k] = INPUT_ALPHABET[(x % b) as usize];
                x /= b;
            }
            let s = std::str::from_utf8(&buf[..len]).unwrap();
            st.eval(&H { pic, text: Some(s) }, check);
        });
        if ctx.shard.1 <= 1 {
            st.mark_exhaustive(&name, &format!("all strings of length {} over the {}-symbol input alphabet x {} pictures x 6 target types", len, b, FIXED_PICTURES.len()));
        }
    }
    // 2b. Display under caller-chosen format specs (alignment / width / precision / zero / sign flags)
    st.stratum("display of formatted values under width / precision / alignment / fill / zero / sign flags", true);
    {
        let mut pics: Vec<String> = FIXED_PICTURES.iter().map(|s| s.to_string()).collect();
        for n in [1usize, 8, 36, 300, 317, 318, 319, 325, 326, 330, 700, 5000, 70_000] {
            if san && n > 400 {
                continue;
            }
            pics.push(format!("YYYY{}MM", " ".repeat(n)));
            pics.push(format!("HH24{}MI", " ".repeat(n)));
            pics.push(format!("DD{}", " ".repeat(n)));
        }
        pics.push("DD-".repeat(18));
        pics.push("MONTH ".repeat(18));
        pics.push("DAY/MONTH/".repeat(9));
        let dims: &[usize] = if san { &[0, 8, 400] } else { &[0, 1, 8, 40, 324, 325, 326, 327, 400, 1000, 65_535] };
        let mut k = 0u64;
        for pic in &pics {
            for &w in dims {
                for &p in dims {
                    k += 1;
                    if !ctx.mine(k) || (san && k % 5 != 0) {
                        continue;
                    }
                    st.eval(&Spec { pic, w, p }, check_spec);
                }
            }
        }
    }
    // 2a'. the public enum conversions from an integer
    st.stratum("Month::from(usize) / WeekDay::from(usize) on 0..=40 and extremes", true);
    for which in [0u8, 1] {
        for k in (0usize..=40).chain([255, 256, 65_535, u32::MAX as usize, usize::MAX - 1, usize::MAX, usize::MAX / 2 + 1]) {
            st.eval(&EnumConv { which, k }, check_enum);
        }
    }
    // 2c. text arguments that are not the same on every `as_ref` call
    st.stratum("AsRef<str> arguments whose text changes between calls", true);
    {
        let firsts = [("YYYY-MM-DD", "2021/03/04"), ("YYYY-MM-DD", "2021-03-04"), ("YYYY-MM-DD HH24:MI", "2021-03-04 10;11"), ("HH24:MI:SS", "10:11,12"), ("DD HH24:MI", "+5 10;11"), ("YYYY-MM", "+0005/11"),
            ("YYYY/MM/DD", "2021-03-04"), ("MONTH DD", "marchx 4"), ("DY DD MON YYYY", "mon 4 mar 2021"), ("YYYY-MM-DD", "2021-13-04"), ("HH:MI AM", "13:00 pm"), ("YYYY-MM-DD", "20\u{e9}1-03-04"), ("FF9", "1234567890123")];
        let laters = ["", "x", "20", "\u{20ac}\u{20ac}\u{20ac}\u{20ac}", "2021-03-04", "2021/03/04 and a much longer tail \u{e9}\u{e9}\u{e9} than the first text had", "\u{1F600}"];
        let mut k = 0u64;
        for (pic, first) in firsts {
            for later in laters {
                for switch_at in [1u32, 2, 3, 5] {
                    k += 1;
                    if !ctx.mine(k) {
                        continue;
                    }
                    st.eval(&Shift { pic, first, later, switch_at }, check_shift);
                    st.eval(&Shift { pic, first: later, later: first, switch_at }, check_shift);
                }
            }
        }
    }
    // 3a. long / odd pictures
    st.stratum("pictures/long blank runs and long token sequences", true);
    let mut k = 0u64;
    for n in (1..=ctx.tier.pick(300, 700, 3000)).step_by(ctx.tier.pick(37, 1, 1)) {
        k += 1;
        if !ctx.mine(k) {
            continue;
        }
        let run = " ".repeat(n);
        st.eval(&H { pic: &run, text: None }, check);
        st.eval(&H { pic: &format!("YYYY{}DD", run), text: None }, check);
        st.eval(&H { pic: &format!("YYYY{}DD", run), text: Some("2021 11") }, check);
    }
    for n in [255usize, 256, 257, 511, 512, 513, 65_535, 65_536, 65_537] {
        if ctx.tier == Tier::San && n > 600 {
            continue;
        }
        let run = " ".repeat(n);
        st.eval(&H { pic: &run, text: None }, check);
        st.eval(&H { pic: &run, text: Some("") }, check);
        st.eval(&H { pic: &format!("HH24{}MI", run), text: None }, check);
    }
    // 3a'. a valid prefix followed by a long tail with a multi-byte character at every byte offset (error paths that
    //      echo or slice the input must respect character boundaries)
    let tails = ctx.tier.pick(8, 640, 1200);
    ctx.par(st, "valid prefix + long tail with a multi-byte character at every offset", true, 0, tails * FIXED_PICTURES.len() as i64, |st, i, _| {
        let pic = FIXED_PICTURES[(i % FIXED_PICTURES.len() as i64) as usize];
        let off = (i / FIXED_PICTURES.len() as i64) as usize;
        for (prefix, ch) in [("2021", 'é'), ("12", '日'), ("", '\u{1F600}'), ("+1 ", 'é'), ("2021-03", '日')] {
            let mut t = String::with_capacity(off + 16);
            t.push_str(prefix);
            while t.len() < off {
                t.push('x');
            }
            t.push(ch);
            t.push_str("xx");
            st.eval(&H { pic, text: Some(&t) }, check);
        }
    });
    // 3b. grammar-generated pictures (up to 60 tokens) and leniently spelled texts damaged at byte level
    let n = ctx.tier.pick(60, 300_000, ctx.big(6_000_000, 40_000_000));
    ctx.par(st, "generated pictures + spelled texts with byte-level damage", false, 0, n, |st, _, rng| {
        let ty = *rng.pick(&ALL_TY);
        let lossless = rng.chance(1, 2);
        let g = match gen_picture(rng, ty, lossless) {
            Some(g) => g,
            None => {
                st.skipped += 1;
                return;
            }
        };
        let v = rand_value(rng, ty);
        let lenient = rng.chance(1, 2);
        let sp = spell(rng, &v, &g.toks, &Opts { lenient, allow_cut: true, pert: None, extra_frac: None });
        let mut text: Vec<char> = sp.text.chars().collect();
        for _ in 0..rng.below(4) {
            let pos = rng.below(text.len() as u64 + 1) as usize;
            match rng.below(7) {
                0 => {
                    if pos < text.len() {
                        text.remove(pos);
                    }
                }
                1 => {
                    if pos < text.len() {
                        let c = text[pos];
                        text.insert(pos, c);
                    }
                }
                2 => {
                    if pos + 1 < text.len() {
                        text.swap(pos, pos + 1);
                    }
                }
                3 => {
                    let c = *rng.pick(&[' ', '0', '9', '-', '+', ':']);
                    let k = 1 + rng.below(300) as usize;
                    for _ in 0..k {
                        text.insert(pos.min(text.len()), c);
                    }
                }
                4 => text.insert(pos.min(text.len()), *rng.pick(&['é', '日', '\u{1F600}', '\u{0}', '\u{a0}', '\u{7f}'])),
                5 => text.insert(pos.min(text.len()), *rng.pick(&['-', '+', ' ', '.', ':', 'x', '0', '/', ',', 'T', 'a', 'P'])),
                _ => {
                    if pos < text.len() {
                        text[pos] = *rng.pick(&['-', '+', ' ', '.', ':', 'x', '0', '9', '/', '\t', '\n']);
                    }
                }
            }
        }
        let text: String = text.into_iter().collect();
        // the picture too may be damaged (then it is usually rejected - which is fine)
        let mut pic = g.text.clone();
        if rng.chance(1, 5) && !pic.is_empty() {
            let pos = rng.below(pic.len() as u64) as usize;
            if pic.is_char_boundary(pos) {
                pic.insert_str(pos, *rng.pick(&[" ", "  ", "-", "D", "Y", "M", "H", "F", "A", "P", ".", "T", "t", "é", "W", "S"]));
            }
        }
        let h = mix(hash64(pic.as_bytes()), hash64(text.as_bytes()));
        st.eval_h(h, &H { pic: &pic, text: Some(&text) }, check);
        st.eval_h(mix(h, 1), &H { pic: &pic, text: None }, check);
    });
    // 3c. random strings (valid UTF-8, up to 2000 characters) as picture and as input
    let n = ctx.tier.pick(40, 100_000, ctx.big(2_000_000, 10_000_000));
    ctx.par(st, "random UTF-8 strings as picture and as input", false, 0, n, |st, _, rng| {
        let len = if rng.chance(1, 40) { rng.below(2000) as usize } else { rng.below(30) as usize };
        let mut p = String::new();
        for _ in 0..len {
            match rng.below(10) {
                0 => p.push(*rng.pick(&['é', '日', '\u{1F600}', '\u{0}', '\u{7f}', '\u{a0}', '\u{10FFFF}'])),
                1..=3 => p.push((0x20 + rng.below(0x5f) as u8) as char),
                _ => p.push(*rng.pick(ALPHABET) as char),
            }
        }
        let pic = *rng.pick(FIXED_PICTURES);
        let h = hash64(p.as_bytes());
        st.eval_h(h, &H { pic: &p, text: None }, check);
        st.eval_h(mix(h, hash64(pic.as_bytes())), &H { pic, text: Some(&p) }, check);
        st.eval_h(mix(h, 7), &H { pic: &p, text: Some(&p) }, check);
    });
    // 4.+5. every catalogued operation on pools, scalar extremes (NaN, infinities, u32::MAX fields, i32 extremes ...):
    // the other drivers' workloads, all of which run inside the panic boundary
    compose(ctx, st, &|k| k.starts_with("panic@"));
}

pub fn replay(v: &Value, st: &mut Stats) -> bool {
    if jstr(v, "kind") == "enum-from-usize" {
        let k = v.get("k").and_then(|x| x.as_u64()).unwrap_or(0) as usize;
        st.eval(&EnumConv { which: if jstr(v, "type") == "Month" { 0 } else { 1 }, k }, check_enum);
        return true;
    }
    if jstr(v, "kind") == "display-spec" {
        let pic = jstr(v, "picture");
        st.eval(&Spec { pic: &pic, w: ji64(v, "width") as usize, p: ji64(v, "precision") as usize }, check_spec);
        return true;
    }
    if jstr(v, "kind") == "shifting-text" {
        let (pic, first, later) = (jstr(v, "picture"), jstr(v, "first"), jstr(v, "later"));
        st.eval(&Shift { pic: &pic, first: &first, later: &later, switch_at: ji64(v, "switch_at") as u32 }, check_shift);
        return true;
    }
    if jstr(v, "kind") != "hostile" {
        return false;
    }
    let pic = jstr(v, "picture");
    let text = v.get("text").and_then(|t| t.as_str()).map(|s| s.to_string());
    st.eval(&H { pic: &pic, text: text.as_deref() }, check);
    true
}
