#!/bin/sh
# usage: lib/try_mutant.sh <patch> <Cnn> [quick|thorough]   -- applies the patch to /repo, runs the check, always reverts
P="$1"; ID="$2"; T="${3:-quick}"
cd /verif
git -C /repo diff --quiet || { echo "/repo is dirty, refusing"; exit 3; }
git -C /repo apply "$P" || { echo "patch does not apply"; exit 3; }
./check "$ID" "$T"; RC=$?
git -C /repo checkout -- .
echo "exit=$RC"
exit $RC
