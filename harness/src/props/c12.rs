//! C12 - time-of-day arithmetic wraps modulo 24 hours.
use crate::core::*;
use crate::kinds;
use crate::pools::*;
use serde_json::Value;
use sqldatetime::{IntervalDT, Time};
use std::cmp::Ordering;

kinds!(K { AddSub = "Time::add/sub_interval_dt", SubTime = "Time::sub_time", FromDt = "Time::from(IntervalDT)", Cmp = "Time<=>IntervalDT" });
pub type C = G<K>;
impl Case for C {
    fn to_json(&self) -> Value {
        g_json(self.k.name(), self.a, self.b, self.c, self.f)
    }
}

pub fn check(st: &mut Stats, c: &C) {
    match c.k {
        K::AddSub => {
            let (t, i) = (Time::try_from_usecs(c.a).expect("time"), IntervalDT::try_from_usecs(c.b).expect("interval"));
            st.op(Op::T_add_interval_dt);
            st.op(Op::T_sub_interval_dt);
            let add = t.add_interval_dt(i);
            let sub = t.sub_interval_dt(i);
            st.obs(Op::T_add_interval_dt, &add);
            st.obs(Op::T_sub_interval_dt, &sub);
            let ea = (c.a as i128 + c.b as i128).rem_euclid(DAY_US as i128) as i64;
            let es = (c.a as i128 - c.b as i128).rem_euclid(DAY_US as i128) as i64;
            if add.usecs() != ea {
                st.fail(if ea == 0 { "C12/add_interval_dt/wrong/wraps-to-midnight" } else { "C12/add_interval_dt/wrong" }, format!("{} + {} = {} expected {}", c.a, c.b, add.usecs(), ea));
            }
            if sub.usecs() != es {
                st.fail(if es == 0 { "C12/sub_interval_dt/wrong/wraps-to-midnight" } else { "C12/sub_interval_dt/wrong" }, format!("{} - {} = {} expected {}", c.a, c.b, sub.usecs(), es));
            }
            // round trip through the inverse operation returns the original time
            if add.sub_interval_dt(i).usecs() != c.a || sub.add_interval_dt(i).usecs() != c.a {
                st.fail("C12/add-sub/not-inverse", format!("{} +- {}", c.a, c.b));
            }
        }
        K::SubTime => {
            let (x, y) = (Time::try_from_usecs(c.a).expect("time"), Time::try_from_usecs(c.b).expect("time"));
            st.op(Op::T_sub_time);
            let d = x.sub_time(y);
            st.obs(Op::T_sub_time, &d);
            if d.usecs() != c.a - c.b {
                st.fail("C12/sub_time/wrong", format!("{} - {} = {}", c.a, c.b, d.usecs()));
            }
            if y.sub_time(x).usecs() != c.b - c.a {
                st.fail("C12/sub_time/antisymmetry", format!("{} {}", c.a, c.b));
            }
            // y + (x - y) = x (mod 24h)
            if y.add_interval_dt(d).usecs() != c.a {
                st.fail("C12/sub_time/add-back", format!("{} {}", c.a, c.b));
            }
        }
        K::FromDt => {
            let i = IntervalDT::try_from_usecs(c.a).expect("interval");
            st.op(Op::T_from_dt);
            let t: Time = i.into();
            st.obs(Op::T_from_dt, &t);
            let e = (c.a as i128).abs().rem_euclid(DAY_US as i128) as i64;
            if t.usecs() != e {
                st.fail("C12/from-interval/wrong", format!("{} -> {} expected {}", c.a, t.usecs(), e));
            }
            if (0..DAY_US).contains(&c.a) {
                st.op(Op::DT_from_time);
                let back: IntervalDT = t.into();
                st.obs(Op::DT_from_time, &back);
                if back.usecs() != c.a {
                    st.fail("C12/interval-from-time/wrong", format!("{}", c.a));
                }
            }
        }
        K::Cmp => {
            let (t, i) = (Time::try_from_usecs(c.a).expect("time"), IntervalDT::try_from_usecs(c.b).expect("interval"));
            st.op(Op::T_cmp_dt);
            st.op(Op::DT_cmp_time);
            let e = c.a.cmp(&c.b);
            let ok1 = t.partial_cmp(&i) == Some(e) && (t == i) == (e == Ordering::Equal) && (t < i) == (e == Ordering::Less) && (t <= i) == (e != Ordering::Greater) && (t > i) == (e == Ordering::Greater) && (t != i) == (e != Ordering::Equal);
            let r = e.reverse();
            let ok2 = i.partial_cmp(&t) == Some(r) && (i == t) == (r == Ordering::Equal) && (i < t) == (r == Ordering::Less) && (i >= t) == (r != Ordering::Less) && (i > t) == (r == Ordering::Greater) && (i != t) == (r != Ordering::Equal) && (i <= t) == (r != Ordering::Greater);
            let ok1 = ok1 && (t >= i) == (e != Ordering::Less);
            if !ok1 {
                st.fail("C12/compare/time-vs-interval", format!("time {} vs interval {}", c.a, c.b));
            }
            if !ok2 {
                st.fail("C12/compare/interval-vs-time", format!("interval {} vs time {}", c.b, c.a));
            }
        }
    }
}

pub fn boundary_intervals() -> Vec<i64> {
    let mut v = vec![0, 1, -1, 999_999, 1_000_000, DAY_US - 1, DAY_US, DAY_US + 1, -(DAY_US - 1), -DAY_US, -(DAY_US + 1), 2 * DAY_US, -2 * DAY_US, 12 * H, -12 * H, 7 * DAY_US + 1,
        -7 * DAY_US - 1, 100 * DAY_US, -100 * DAY_US, DT_LIM, -DT_LIM, DT_LIM - 1, 1 - DT_LIM, DT_LIM - DAY_US + 1, 99_999_999 * DAY_US + 12 * H, -(99_999_999 * DAY_US + 12 * H), 6 * H + 1, -(6 * H + 1)];
    // powers of two +-1 (narrowing casts, shifts)
    for k in [31u32, 32, 33, 36, 37, 40, 53, 62] {
        for e in [-1i64, 0, 1] {
            v.push((1i64 << k) + e);
            v.push(-(1i64 << k) + e);
        }
    }
    v.sort();
    v.dedup();
    v
}

pub fn run(ctx: &Ctx, st: &mut Stats) {
    let ivs = boundary_intervals();
    let ni = ivs.len() as i64;
    let sstride = ctx.tier.pick(1999, 1, 1);
    let ivs_ref = &ivs;
    ctx.par(st, "seconds x {0,1,999999}us x boundary-intervals", true, 0, (86_400 / sstride) * 3 * ni, |st, i, _| {
        let iv = ivs_ref[(i % ni) as usize];
        let r = i / ni;
        let t = (r / 3) * sstride * 1_000_000 + [0, 1, 999_999][(r % 3) as usize];
        st.eval(&C::ab(K::AddSub, t, iv), check);
        st.eval(&C::ab(K::Cmp, t, iv), check);
        // the interval that lands exactly on midnight / on 23:59:59.999999 from this time
        if i % ni == 0 {
            for k in [0i64, 1, 5, -3] {
                for e in [-1i64, 0, 1] {
                    let target = k * DAY_US - t + e;
                    st.eval(&C::ab(K::AddSub, t, target), check);
                    st.eval(&C::ab(K::AddSub, t, -target), check);
                }
            }
            st.eval(&C::ab(K::Cmp, t, t), check);
            st.eval(&C::ab(K::Cmp, t, t + 1), check);
            st.eval(&C::ab(K::Cmp, t, t - 1), check);
            st.eval(&C::ab(K::Cmp, t, -t), check);
            st.eval(&C::ab(K::Cmp, t, t + DAY_US), check);
        }
    });
    if sstride == 1 {
        st.mark_exhaustive("seconds x {0,1,999999}us x boundary-intervals", &format!("all 86,400 seconds x 3 microsecond values x {} boundary intervals + exact-midnight intervals", ni));
    }
    // every microsecond count of a day as an interval of either sign: conversion to a time of day, and add/sub to one time
    // (thorough: all 86,400,000,000; quick: a stride coprime to the powers of two and ten)
    let ustride: i64 = ctx.tier.pick(400_000_009, ctx.q(100_003, 20_011), ctx.big(1009, 1));
    let chunk: i64 = 1_000_000;
    ctx.par(st, "every microsecond interval within one day, both signs: Time::from(interval) and 12:00:00.5 +- interval", true, 0, DAY_US / chunk, |st, c, rng| {
        let days = rng.range_i64(0, 99_999_998) * DAY_US;
        let mut u = c * chunk + (ustride - (c * chunk) % ustride) % ustride;
        while u < (c + 1) * chunk {
            st.eval(&C::ab(K::FromDt, u, 0), check);
            st.eval(&C::ab(K::FromDt, -u, 0), check);
            st.eval(&C::ab(K::AddSub, 43_200_500_000, u), check);
            st.eval(&C::ab(K::AddSub, 43_200_500_000, -u), check);
            if u % 64 == 0 {
                st.eval(&C::ab(K::FromDt, -(u + days), 0), check);
                st.eval(&C::ab(K::AddSub, 1, u + days), check);
            }
            u += ustride;
        }
    });
    if ustride == 1 {
        st.mark_exhaustive("every microsecond interval within one day, both signs: Time::from(interval) and 12:00:00.5 +- interval", "all 86,400,000,000 sub-day interval magnitudes x both signs");
    }
    cold_threads(st, "history: first call on a fresh thread (sentinel-like operands: -1, 0, 1 ...)", {
        let mut v = vec![];
        for t in [0i64, 1, 43_200_000_000, DAY_US - 1] {
            for b in [-1i64, 0, 1, -2, 2, 999_999, -999_999, 1_000_000, -1_000_000, i32::MAX as i64, i32::MIN as i64] {
                v.push(C::ab(K::AddSub, t, b));
                v.push(C::ab(K::Cmp, t, b));
            }
        }
        for b in [-1i64, 0, 1, -2, 2, 999_999, -999_999, 1_000_000, -1_000_000, i32::MAX as i64, i32::MIN as i64] {
            v.push(C::ab(K::FromDt, b, 0));
        }
        v
    }, check);
    // whole days plus 2^j microseconds, and multiples of 2^j microseconds plus whole days (a shortcut for "whole days" must
    // look at every bit)
    st.stratum("intervals: k days + 2^j us, m*2^j us + k days, both signs, x 3 times", true);
    for j in 0..=46u32 {
        for k in [1i64, 2, 7, 100, 407, 408, 99_999] {
            for m in [1i64, 2, 3] {
                for iv in [k * DAY_US + (1i64 << j), k * DAY_US - (1i64 << j), m * (1i64 << j) + k * DAY_US] {
                    if iv.abs() <= DT_LIM {
                        for t in [0i64, 43_200_500_000, DAY_US - 1] {
                            st.eval(&C::ab(K::AddSub, t, iv), check);
                            st.eval(&C::ab(K::AddSub, t, -iv), check);
                        }
                        st.eval(&C::ab(K::FromDt, iv, 0), check);
                        st.eval(&C::ab(K::FromDt, -iv, 0), check);
                    }
                }
            }
        }
    }
    // small magnitudes on both sides of a comparison (32-bit differences wrap around 2^31 us = 35 min 47 s)
    let nsm = ctx.tier.pick(300, 600_000, 6_000_000);
    ctx.par(st, "comparisons: time and interval both below 2^32 us in magnitude", false, 0, nsm, |st, _, rng| {
        let t = rng.range_i64(0, (1i64 << 32).min(DAY_US - 1));
        let iv = rng.range_i64(-(1i64 << 32), 1i64 << 32);
        let c = C::ab(K::Cmp, t, iv);
        st.eval_h(c.hash(77), &c, check);
    });
    // bit-structured times x bit-structured intervals
    let bts = bit_times();
    let bts_ref = &bts;
    let bstep = ctx.tier.pick(499, 1, 1);
    ctx.par(st, "bit-structured times x (own value, +-2^k intervals)", true, 0, bts.len() as i64 / bstep, |st, i, _| {
        let t = bts_ref[(i * bstep) as usize];
        for d in [t, -t, t + 1, t - 1, DAY_US - t, t - DAY_US, t + DAY_US] {
            if d.abs() <= DT_LIM {
                st.eval(&C::ab(K::AddSub, t, d), check);
                st.eval(&C::ab(K::Cmp, t, d), check);
            }
        }
        for k in (0..40u32).step_by(3) {
            for iv in [1i64 << k, -(1i64 << k)] {
                st.eval(&C::ab(K::AddSub, t, iv), check);
                st.eval(&C::ab(K::Cmp, t, iv), check);
            }
        }
        st.eval(&C::ab(K::SubTime, t, bts_ref[(i as usize * 7) % bts_ref.len()]), check);
    });
    // critical times x intervals at unit-scaled powers of two (2^31 s, 2^32 s, 2^32 min ...), both signs
    let ups = unit_pow2();
    let tp = time_pool();
    let (ups_ref, tp_ref) = (&ups, &tp);
    ctx.par(st, "critical times x intervals at unit-scaled powers of two", true, 0, (ups.len() * tp.len()) as i64, |st, i, _| {
        let iv = ups_ref[i as usize / tp_ref.len()];
        let t = tp_ref[i as usize % tp_ref.len()];
        for v in [iv, -iv] {
            if v.abs() <= DT_LIM {
                st.eval(&C::ab(K::AddSub, t, v), check);
                st.eval(&C::ab(K::FromDt, v, 0), check);
            }
        }
    });
    st.stratum("from-interval/boundaries", true);
    for &i in dt_pool().iter().chain(ivs.iter()) {
        st.eval(&C::ab(K::FromDt, i, 0), check);
    }
    let sec_range = ctx.tier.pick(100, 2 * 86_400, 2 * 86_400);
    ctx.par(st, "from-interval/every-second-within-2-days", true, -sec_range, sec_range + 1, |st, s, _| {
        st.eval(&C::ab(K::FromDt, s * 1_000_000, 0), check);
        st.eval(&C::ab(K::FromDt, s * 1_000_000 + 1, 0), check);
        st.eval(&C::ab(K::FromDt, s * 1_000_000 - 1, 0), check);
    });
    st.stratum("sub_time/pool-pairs", true);
    let times = time_pool();
    for &a in &times {
        for &b in &times {
            st.eval(&C::ab(K::SubTime, a, b), check);
        }
    }
    let n = ctx.tier.pick(1_000, 3_000_000, ctx.big(40_000_000, 400_000_000));
    ctx.par(st, "random/(time, interval) pairs", false, 0, n, |st, _, rng| {
        let t = if rng.chance(1, 10) { *rng.pick(&[0, 1, DAY_US - 1, DAY_US / 2]) } else { rng.range_i64(0, DAY_US - 1) };
        let c = match rng.below(6) {
            0 => C::ab(K::SubTime, t, rng.range_i64(0, DAY_US - 1)),
            1 => C::ab(K::FromDt, rng.range_i64(-DT_LIM, DT_LIM), 0),
            2 => C::ab(K::Cmp, t, if rng.chance(1, 3) { t + rng.range_i64(-2, 2) } else { rng.range_i64(-2 * DAY_US, 2 * DAY_US) }),
            _ => {
                let i = match rng.below(4) {
                    0 => rng.range_i64(-DT_LIM, DT_LIM),
                    1 => rng.range_i64(-5, 5) * DAY_US - t + rng.range_i64(-1, 1),
                    _ => rng.range_i64(-3 * DAY_US, 3 * DAY_US),
                };
                C::ab(K::AddSub, t, i)
            }
        };
        { let (an, td, ks) = crate::primers::g_context(c.a, c.b); crate::primers::eval_sched(st, rng, c.hash(c.k as u64), &c, &an, td, &ks, check); }
    });
}

pub fn replay(v: &Value, st: &mut Stats) -> bool {
    match K::from_name(&jstr(v, "kind")) {
        Some(k) => {
            st.eval(&C { k, a: ji64(v, "a"), b: ji64(v, "b"), c: ji64(v, "c"), f: jf64(v, "f") }, check);
            true
        }
        None => false,
    }
}
