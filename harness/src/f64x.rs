//! placeholder
