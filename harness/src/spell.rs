//! R-SPELL: lenient speller, perturber, denotation model and picture generators (C05, C06, C18).
//!
//! `spell` writes a value under a picture using only the leniencies the property lists and records
//! the fields it wrote; `denote` is the reference reading of those fields (what the text *means*),
//! independent of the library. A perturbation makes the text/picture denote nothing.

use crate::cal::{days_from_civil, dim, doy, from_doy, leap, weekday_sun0};
use crate::core::*;
use crate::tok::*;

#[derive(Clone, Debug, Default)]
pub struct Given {
    /// (value as written, number of digits written, token width n)
    pub year: Option<(i64, usize, usize)>,
    pub month: Option<i64>,
    pub day: Option<i64>,
    pub doy: Option<i64>,
    /// weekday as 0 = Sunday .. 6
    pub dow: Option<u32>,
    pub hour24: Option<i64>,
    pub hour12: Option<i64>,
    /// Some(true) = PM
    pub pm: Option<bool>,
    pub minute: Option<i64>,
    pub second: Option<i64>,
    /// fraction digits as written
    pub frac: Option<String>,
    pub negative: bool,
    /// the picture contains a 12-hour field (written or omitted)
    pub has_hour12_field: bool,
}

/// current local (year, month) used for defaults; C05 pins it, C18 sweeps it
#[derive(Clone, Copy, Debug)]
pub struct Clock {
    pub year: i32,
    pub month: u32,
}

fn frac_to_us(digits: &str) -> u32 {
    // decimal fraction 0.d1..dk rounded half-up to six digits (may yield 1_000_000 = carry)
    if digits.is_empty() {
        return 0;
    }
    let k = digits.len();
    let val: u64 = digits.parse().unwrap_or(0);
    if k <= 6 {
        (val * 10u64.pow((6 - k) as u32)) as u32
    } else {
        let p = 10u64.pow((k - 6) as u32);
        ((val + p / 2) / p) as u32
    }
}

/// The reference reading. Err(()) = the fields denote no value of the type.
pub fn denote(ty: Ty, g: &Given, clock: Clock) -> Result<V, ()> {
    // ---- time of day
    let mut hour: i64 = 0;
    if let Some(h) = g.hour24 {
        if !(0..24).contains(&h) {
            return Err(());
        }
        hour = h;
    }
    if ty != Ty::DT && ty != Ty::YM && ty != Ty::Date {
        if let Some(h) = g.hour12 {
            if !(1..=12).contains(&h) {
                return Err(());
            }
        }
    }
    let minute = g.minute.unwrap_or(0);
    let second = g.second.unwrap_or(0);
    if !(0..60).contains(&minute) || !(0..60).contains(&second) {
        return Err(());
    }
    let us = g.frac.as_deref().map(frac_to_us).unwrap_or(0) as i64;
    match ty {
        Ty::YM => {
            let y = g.year.map(|t| t.0).unwrap_or(0);
            let m = g.month.unwrap_or(0);
            if !(0..12).contains(&m) || y < 0 {
                return Err(());
            }
            let total = y as i128 * 12 + m as i128;
            if total > YM_LIM as i128 {
                return Err(());
            }
            Ok(V::YM(g.negative && total != 0, y as u32, m as u32))
        }
        Ty::DT => {
            let d = g.day.unwrap_or(0);
            if d < 0 {
                return Err(());
            }
            let total = d as i128 * DAY_US as i128 + hour as i128 * 3_600_000_000 + minute as i128 * 60_000_000 + second as i128 * 1_000_000 + us as i128;
            if total > DT_LIM as i128 {
                return Err(());
            }
            let t = total as i64;
            let r = t % DAY_US;
            Ok(V::DT(g.negative && total != 0, (t / DAY_US) as u32, (r / 3_600_000_000) as u32, (r / 60_000_000 % 60) as u32, (r / 1_000_000 % 60) as u32, (r % 1_000_000) as u32))
        }
        _ => {
            // 12-hour clock: an omitted 12-hour field is 12; the meridian (if written) then applies
            let uses12 = g.hour12.is_some() || g.has_hour12_field || (g.hour24.is_none() && g.pm.is_some());
            if uses12 {
                let h12 = g.hour12.unwrap_or(12);
                hour = match g.pm {
                    Some(false) => h12 % 12,
                    Some(true) => h12 % 12 + 12,
                    None => h12,
                };
            }
            let tod = hour * 3_600_000_000 + minute * 60_000_000 + second * 1_000_000 + us; // may be >= one day through the carry
            if ty == Ty::Time {
                if tod >= DAY_US {
                    return Err(());
                }
                return Ok(V::Time((tod / 3_600_000_000) as u32, (tod / 60_000_000 % 60) as u32, (tod / 1_000_000 % 60) as u32, (tod % 1_000_000) as u32));
            }
            // ---- date part
            let year: i64 = match g.year {
                Some((v, digits, n)) => {
                    if n >= 4 || (n == 2 && digits > 2) {
                        v
                    } else {
                        let p = 10i64.pow(n as u32);
                        clock.year as i64 - clock.year as i64 % p + v
                    }
                }
                None => clock.year as i64,
            };
            if !(1..=9999).contains(&year) {
                return Err(());
            }
            let (mut month, mut day) = (g.month, g.day);
            if let Some(n) = g.doy {
                let len = if leap(year) { 366 } else { 365 };
                if n < 1 || n > len {
                    return Err(());
                }
                let (dm, dd) = from_doy(year, n as u32).ok_or(())?;
                match (month, day) {
                    (Some(m), Some(d)) => {
                        if m != dm as i64 || d != dd as i64 {
                            return Err(());
                        }
                    }
                    (Some(m), None) => {
                        if m != dm as i64 {
                            return Err(());
                        }
                        day = Some(dd as i64);
                    }
                    (None, Some(d)) => {
                        if d != dd as i64 {
                            return Err(());
                        }
                        month = Some(dm as i64);
                    }
                    (None, None) => {
                        month = Some(dm as i64);
                        day = Some(dd as i64);
                    }
                }
            }
            let month = month.unwrap_or(clock.month as i64);
            let day = day.unwrap_or(1);
            if !(1..=12).contains(&month) || day < 1 || day > dim(year, month as u32) as i64 {
                return Err(());
            }
            let n = days_from_civil(year, month, day);
            if let Some(w) = g.dow {
                if weekday_sun0(n) != w {
                    return Err(());
                }
            }
            if ty == Ty::Date {
                return Ok(V::Date(year as i32, month as u32, day as u32));
            }
            let total = n as i128 * DAY_US as i128 + tod as i128;
            if total > TS_MAX as i128 {
                return Err(());
            }
            let (dn, r) = ((total.div_euclid(DAY_US as i128)) as i64, (total.rem_euclid(DAY_US as i128)) as i64);
            let (y, m, d) = crate::cal::civil_from_days(dn);
            let (h, mi, s, u) = ((r / 3_600_000_000) as u32, (r / 60_000_000 % 60) as u32, (r / 1_000_000 % 60) as u32, (r % 1_000_000) as u32);
            if ty == Ty::Ora {
                // Oracle-style dates hold whole seconds: a fraction (only reachable through a carry here) is floored
                return Ok(V::Ora(y as i32, m, d, h, mi, s));
            }
            Ok(V::Ts(y as i32, m, d, h, mi, s, u))
        }
    }
}

#[derive(Clone, Copy, Debug, PartialEq, Eq, Hash)]
pub enum Pert {
    Month,
    Day,
    DayOverMonth,
    Doy,
    DoyMismatch,
    Dow,
    Hour,
    Minute,
    Second,
    YearZero,
    IntervalLimit,
    Garbage,
    Leftover,
}
impl Pert {
    pub fn name(self) -> &'static str {
        match self {
            Pert::Month => "month-out-of-domain",
            Pert::Day => "day-out-of-domain",
            Pert::DayOverMonth => "day-beyond-month-length",
            Pert::Doy => "day-of-year-out-of-domain",
            Pert::DoyMismatch => "day-of-year-disagrees-with-month-day",
            Pert::Dow => "weekday-disagrees-with-date",
            Pert::Hour => "hour-out-of-domain",
            Pert::Minute => "minute-out-of-domain",
            Pert::Second => "second-out-of-domain",
            Pert::YearZero => "year-out-of-domain",
            Pert::IntervalLimit => "interval-beyond-limit",
            Pert::Garbage => "trailing-garbage",
            Pert::Leftover => "leftover-input",
        }
    }
}

pub struct Opts {
    pub lenient: bool,
    pub allow_cut: bool,
    pub pert: Option<Pert>,
    /// extra fraction digits beyond the value's six (for rounding / carry workloads): e.g. Some("9995")
    pub extra_frac: Option<&'static str>,
}

pub struct Spelled {
    pub text: String,
    pub given: Given,
    /// false when the requested perturbation could not be applied soundly to this picture/value
    pub pert_applied: bool,
}

fn is_numeric(t: &Tok) -> bool {
    matches!(t, Tok::Year(_) | Tok::MM | Tok::DD | Tok::DDD | Tok::D | Tok::HH12 | Tok::HH24 | Tok::MI | Tok::SS | Tok::FF(_))
}
fn is_time_field(t: &Tok) -> bool {
    matches!(t, Tok::HH12 | Tok::HH24 | Tok::MI | Tok::SS | Tok::FF(_) | Tok::Mer { .. })
}
fn tolerant_tail(t: &Tok) -> bool {
    is_time_field(t) || matches!(t, Tok::Blank(_) | Tok::Punct(b'-') | Tok::Punct(b':') | Tok::Punct(b'.'))
}
fn rcase(rng: &mut Rng, s: &str) -> String {
    let mode = rng.below(4);
    s.chars()
        .map(|c| match mode {
            0 => c.to_ascii_uppercase(),
            1 => c.to_ascii_lowercase(),
            2 => c,
            _ => {
                if rng.chance(1, 2) {
                    c.to_ascii_uppercase()
                } else {
                    c.to_ascii_lowercase()
                }
            }
        })
        .collect()
}

/// Spells `v` under `toks`. The caller must have checked that the picture is parseable for the type
/// (see `parse_picture_ok`).
pub fn spell(rng: &mut Rng, v: &V, toks: &[Tok], o: &Opts) -> Spelled {
    let ty = v.ty();
    let mut g = Given::default();
    g.has_hour12_field = toks.iter().any(|t| matches!(t, Tok::HH12));
    let mut text = String::new();
    let mut pert_applied = false;
    // where may the text stop? (only dates/times/timestamps, never when perturbing)
    let mut cut = toks.len();
    if o.allow_cut && o.pert.is_none() && !ty.is_interval() && rng.chance(1, 3) {
        let mut c = toks.len();
        while c > 0 && tolerant_tail(&toks[c - 1]) {
            c -= 1;
        }
        if c < toks.len() {
            cut = c + rng.below((toks.len() - c) as u64 + 1) as usize;
        }
    }
    if ty.is_interval() {
        g.negative = v.negative();
        // the '+' may be left out only when the text then starts with the digits of a field
        // (a leading '-' separator would otherwise be read as the sign)
        let starts_with_field = toks.first().map(is_numeric).unwrap_or(false);
        if o.lenient && rng.chance(1, 8) {
            text.push_str(&" ".repeat(1 + rng.below(3) as usize));
        }
        if v.negative() {
            text.push('-');
        } else if !o.lenient || !starts_with_field || rng.chance(1, 2) {
            text.push('+');
        }
    } else if o.lenient && rng.chance(1, 10) {
        text.push_str(" ");
    }
    let (date, time, frac) = (v.date(), v.time(), v.frac());
    for (i, t) in toks.iter().enumerate() {
        if i >= cut {
            break;
        }
        // a number may be written without padding only if the next character of the text cannot extend it
        let next_written = if i + 1 < cut { toks.get(i + 1) } else { None };
        let delimited = match next_written {
            None => true,
            Some(n) => !is_numeric(n),
        };
        if o.lenient && rng.chance(1, 10) && !(ty.is_interval() && i == 0 && false) {
            text.push_str(&" ".repeat(1 + rng.below(2) as usize));
        }
        let num = |rng: &mut Rng, val: i64, width: usize, plus_ok: bool, force_pad: bool| -> String {
            let mut s = if o.lenient && delimited && !force_pad && rng.chance(1, 2) { format!("{}", val) } else { format!("{:0w$}", val, w = width) };
            if o.lenient && plus_ok && rng.chance(1, 7) {
                s = format!("+{}", s);
            }
            s
        };
        let want = |p: Pert| o.pert == Some(p) && !pert_applied;
        match t {
            Tok::Blank(n) => text.push_str(&" ".repeat(if o.lenient && rng.chance(1, 4) { *n + rng.below(3) as usize } else { *n })),
            Tok::Punct(c) => text.push(*c as char),
            Tok::T => text.push('T'),
            Tok::Year(n) => {
                if let V::YM(_, y, _) = *v {
                    let mut val = y as i64;
                    if want(Pert::IntervalLimit) {
                        val = 178_000_001;
                        pert_applied = true;
                    }
                    let s = num(rng, val, *n, true, false);
                    g.year = Some((val, 9, 9));
                    text.push_str(&s);
                } else if let Some((y, _, _)) = date {
                    let p = 10i64.pow(*n as u32);
                    let mut val = if *n == 4 { y as i64 } else { y as i64 % p };
                    if want(Pert::YearZero) && *n == 4 {
                        val = 0;
                        pert_applied = true;
                    }
                    // a year field is written with exactly its n digits (or unpadded when delimited)
                    let s0 = if o.lenient && delimited && !pert_applied && rng.chance(1, 2) { format!("{}", val) } else { format!("{:0w$}", val, w = *n) };
                    let digits = s0.len();
                    let s = if o.lenient && rng.chance(1, 7) { format!("+{}", s0) } else { s0 };
                    g.year = Some((val, digits, *n));
                    text.push_str(&s);
                }
            }
            Tok::MM => {
                if let V::YM(_, _, m) = *v {
                    let mut val = m as i64;
                    if want(Pert::Month) {
                        val = 12;
                        pert_applied = true;
                    }
                    g.month = Some(val);
                    text.push_str(&num(rng, val, 2, true, pert_applied));
                } else if let Some((_, m, _)) = date {
                    if want(Pert::Month) {
                        let val = *rng.pick(&[0i64, 13, 14, 99]);
                        pert_applied = true;
                        g.month = Some(val);
                        text.push_str(&format!("{:02}", val));
                    } else {
                        g.month = Some(m as i64);
                        // a month name where a month number is expected (only if what follows cannot extend the name)
                        let next_alpha = matches!(next_written, Some(Tok::Mon(_)) | Some(Tok::Month(_)) | Some(Tok::Day(_)) | Some(Tok::Dy(_)) | Some(Tok::Mer { .. }) | Some(Tok::T));
                        if o.lenient && !next_alpha && rng.chance(1, 5) {
                            let nm = MONTHS[m as usize - 1];
                            let s = if rng.chance(1, 2) { nm.to_string() } else { nm[..3].to_string() };
                            text.push_str(&rcase(rng, &s));
                        } else {
                            text.push_str(&num(rng, m as i64, 2, true, false));
                        }
                    }
                }
            }
            Tok::Mon(_) | Tok::Month(_) => {
                let (_, m, _) = date.unwrap();
                g.month = Some(m as i64);
                let nm = MONTHS[m as usize - 1];
                let s = if matches!(t, Tok::Mon(_)) { &nm[..3] } else { nm };
                text.push_str(&if o.lenient { rcase(rng, s) } else { s.to_string() });
            }
            Tok::DD => {
                if let V::DT(_, d, ..) = *v {
                    let mut val = d as i64;
                    if want(Pert::IntervalLimit) {
                        val = 100_000_001;
                        pert_applied = true;
                    }
                    g.day = Some(val);
                    text.push_str(&num(rng, val, 2, true, false));
                } else if let Some((y, m, d)) = date {
                    let mut val = d as i64;
                    if want(Pert::Day) {
                        val = *rng.pick(&[0i64, 32, 33, 99]);
                        pert_applied = true;
                    } else if want(Pert::DayOverMonth) && dim(y as i64, m) < 31 {
                        val = dim(y as i64, m) as i64 + 1;
                        pert_applied = true;
                    }
                    g.day = Some(val);
                    text.push_str(&num(rng, val, 2, true, pert_applied));
                }
            }
            Tok::DDD => {
                let (y, m, d) = date.unwrap();
                let mut val = doy(y as i64, m, d) as i64;
                if want(Pert::Doy) {
                    val = *rng.pick(&[0i64, if leap(y as i64) { 367 } else { 366 }, 400, 999]);
                    pert_applied = true;
                } else if want(Pert::DoyMismatch) && toks.iter().any(|t| matches!(t, Tok::DD)) {
                    let len = if leap(y as i64) { 366 } else { 365 };
                    val = if val < len { val + 1 } else { val - 1 };
                    pert_applied = true;
                }
                g.doy = Some(val);
                text.push_str(&num(rng, val, 3, true, pert_applied));
            }
            Tok::D | Tok::Day(_) | Tok::Dy(_) => {
                let (y, m, d) = date.unwrap();
                let mut w = weekday_sun0(days_from_civil(y as i64, m as i64, d as i64));
                if want(Pert::Dow) {
                    w = (w + 1 + rng.below(5) as u32) % 7;
                    pert_applied = true;
                }
                g.dow = Some(w);
                match t {
                    Tok::D => text.push_str(&format!("{}", w + 1)),
                    Tok::Day(_) => text.push_str(&if o.lenient { rcase(rng, DAYS[w as usize]) } else { DAYS[w as usize].to_string() }),
                    _ => text.push_str(&if o.lenient { rcase(rng, &DAYS[w as usize][..3]) } else { DAYS[w as usize][..3].to_string() }),
                }
            }
            Tok::HH24 => {
                let (h, _, _) = time.unwrap();
                let mut val = h as i64;
                if want(Pert::Hour) {
                    val = *rng.pick(&[24i64, 25, 60, 99]);
                    pert_applied = true;
                }
                g.hour24 = Some(val);
                text.push_str(&num(rng, val, 2, true, pert_applied));
            }
            Tok::HH12 => {
                let (h, _, _) = time.unwrap();
                let mut val = if h % 12 == 0 { 12 } else { (h % 12) as i64 };
                if want(Pert::Hour) {
                    val = *rng.pick(&[0i64, 13, 14, 24, 99]);
                    pert_applied = true;
                }
                g.hour12 = Some(val);
                text.push_str(&num(rng, val, 2, true, pert_applied));
            }
            Tok::MI => {
                let (_, mi, _) = time.unwrap();
                let mut val = mi as i64;
                if want(Pert::Minute) {
                    val = *rng.pick(&[60i64, 61, 99]);
                    pert_applied = true;
                }
                g.minute = Some(val);
                text.push_str(&num(rng, val, 2, true, pert_applied));
            }
            Tok::SS => {
                let (_, _, s) = time.unwrap();
                let mut val = s as i64;
                if want(Pert::Second) {
                    val = *rng.pick(&[60i64, 61, 99]);
                    pert_applied = true;
                }
                g.second = Some(val);
                text.push_str(&num(rng, val, 2, true, pert_applied));
            }
            Tok::FF(n) => {
                let us = frac.unwrap();
                let maxd = n.unwrap_or(9);
                let mut digits = format!("{:06}", us);
                if let Some(x) = o.extra_frac {
                    digits.push_str(x);
                }
                digits.truncate(maxd);
                // directly followed by another number the field must fill its whole width
                if !delimited {
                    while digits.len() < maxd {
                        digits.push('0');
                    }
                }
                // fewer digits may be written only when the text ends the number there
                if o.lenient && delimited && o.extra_frac.is_none() && rng.chance(1, 3) {
                    while digits.len() > 1 && digits.ends_with('0') {
                        digits.pop();
                    }
                }
                g.frac = Some(digits.clone());
                text.push_str(&digits);
            }
            Tok::Mer { dots } => {
                let (h, _, _) = time.unwrap();
                let pm = h >= 12;
                g.pm = Some(pm);
                let s = match (pm, dots) {
                    (false, false) => "AM",
                    (true, false) => "PM",
                    (false, true) => "A.M.",
                    (true, true) => "P.M.",
                };
                text.push_str(&if o.lenient { rcase(rng, s) } else { s.to_string() });
            }
            Tok::W | Tok::WW => text.push('1'),
        }
    }
    if o.pert == Some(Pert::Garbage) && cut == toks.len() {
        // (the library's blanks are the ASCII ones: Unicode look-alike spaces and the vertical tab are ordinary characters)
        const UBLANKS: &[&str] = &["\u{a0}", "\u{3000}", "\u{2003}", "\u{85}", "\u{b}", "\u{2028}", "\u{202f}", " \u{a0}", "\u{a0} ", "\u{feff}", "\u{200b}"];
        match rng.below(4) {
            0 => text.push_str(*rng.pick(UBLANKS)),
            1 => text = format!("{}{}", *rng.pick(UBLANKS), text),
            _ => text.push_str(*rng.pick(&["x", " x", "?", "#", "é", " 0", "z9"])),
        }
        pert_applied = true;
    }
    if o.pert == Some(Pert::Leftover) && cut == toks.len() {
        // a well-formed extra field's worth of text that the picture does not account for
        text.push_str(*rng.pick(&[" 12", "-01", ":00", " AM", " Mon", ".5"]));
        pert_applied = true;
    }
    if o.lenient && rng.chance(1, 8) {
        text.push_str(&" ".repeat(1 + rng.below(2) as usize));
    }
    Spelled { text, given: g, pert_applied }
}

#[derive(Clone, Copy, Debug, PartialEq, Eq, Hash)]
pub enum PicDefect {
    RepeatedField,
    OutputOnly,
    Inapplicable,
}
impl PicDefect {
    pub fn name(self) -> &'static str {
        match self {
            PicDefect::RepeatedField => "field-code-repeats",
            PicDefect::OutputOnly => "output-only-code",
            PicDefect::Inapplicable => "inapplicable-code",
        }
    }
}

fn field_class(t: &Tok) -> Option<u8> {
    Some(match t {
        Tok::Year(_) => 1,
        Tok::MM | Tok::Mon(_) | Tok::Month(_) => 2,
        Tok::DD => 3,
        Tok::DDD => 4,
        Tok::D | Tok::Day(_) | Tok::Dy(_) => 5,
        Tok::HH12 | Tok::HH24 => 6,
        Tok::MI => 7,
        Tok::SS => 8,
        Tok::FF(_) => 9,
        Tok::Mer { .. } => 10,
        _ => return None,
    })
}

/// Is this token list a picture under which text can be parsed into `ty` at all, according to the
/// property (every code applies to the type, none is output-only, no field class repeats)? Pictures
/// mixing HH24 with a meridian indicator are outside what the statement describes: None.
pub fn parse_picture_ok(ty: Ty, toks: &[Tok]) -> Option<bool> {
    let mut seen = [false; 11];
    let mut ok = true;
    for t in toks {
        if matches!(t, Tok::W | Tok::WW) || !ty.applies(t) {
            ok = false;
        }
        if let Some(c) = field_class(t) {
            if seen[c as usize] {
                ok = false;
            }
            seen[c as usize] = true;
        }
    }
    if toks.iter().any(|t| matches!(t, Tok::HH24)) && toks.iter().any(|t| matches!(t, Tok::Mer { .. })) {
        return None;
    }
    Some(ok)
}

// ------------------------------------------------------------------------------------------------
// picture generators

#[derive(Clone, Copy, PartialEq, Eq)]
pub enum Style3 {
    U,
    C,
    L,
}
fn style(rng: &mut Rng) -> Style {
    *rng.pick(&[Style::Upper, Style::Capital, Style::Lower])
}

const SEPS: &[&str] = &["-", "/", " ", ",", ".", ";", ":", "\\", "T", "  ", " - ", ", ", ""];

/// Fields carrying all of a value's information (lossless = true) or a random, possibly partial,
/// selection (lossless = false; used for C05 on types where that is meaningful).
fn field_set(rng: &mut Rng, ty: Ty, lossless: bool) -> Vec<Tok> {
    let mut f: Vec<Tok> = vec![];
    let month_tok = |rng: &mut Rng| match rng.below(3) {
        0 => Tok::MM,
        1 => Tok::Mon(style(rng)),
        _ => Tok::Month(style(rng)),
    };
    let dow_tok = |rng: &mut Rng| match rng.below(3) {
        0 => Tok::D,
        1 => Tok::Day(style(rng)),
        _ => Tok::Dy(style(rng)),
    };
    if ty.has_date() {
        f.push(Tok::Year(4));
        match rng.below(4) {
            0 => {
                f.push(Tok::DDD);
                match rng.below(4) {
                    0 => f.push(month_tok(rng)),
                    // day of month without a month field: year + day-of-year still determine the date
                    1 => f.push(Tok::DD),
                    _ => {}
                }
            }
            1 => {
                f.push(month_tok(rng));
                f.push(Tok::DD);
                f.push(Tok::DDD);
            }
            _ => {
                f.push(month_tok(rng));
                f.push(Tok::DD);
            }
        }
        if rng.chance(1, 3) {
            f.push(dow_tok(rng));
        }
    }
    if ty == Ty::YM {
        if lossless || rng.chance(4, 5) {
            f.push(Tok::Year(1 + rng.below(4) as usize));
        }
        if lossless || f.is_empty() || rng.chance(4, 5) {
            f.push(Tok::MM);
        }
    }
    if ty == Ty::DT {
        let all = [Tok::DD, Tok::HH24, Tok::MI, Tok::SS];
        for t in all {
            if lossless || rng.chance(4, 5) {
                f.push(t);
            }
        }
        if lossless || rng.chance(4, 5) {
            f.push(Tok::FF(if lossless { *rng.pick(&[None, Some(6), Some(7), Some(8), Some(9)]) } else { *rng.pick(&[None, Some(1), Some(2), Some(3), Some(4), Some(5), Some(6), Some(7), Some(8), Some(9)]) }));
        }
        if f.is_empty() {
            f.push(Tok::DD);
        }
    }
    if matches!(ty, Ty::Time | Ty::Ts | Ty::Ora) {
        let partial = !lossless && rng.chance(1, 3);
        if rng.chance(1, 2) {
            f.push(Tok::HH24);
        } else {
            f.push(Tok::HH12);
            if !partial || rng.chance(1, 2) {
                f.push(Tok::Mer { dots: rng.chance(1, 2) });
            }
        }
        if !partial || rng.chance(1, 2) {
            f.push(Tok::MI);
        }
        if !partial || rng.chance(1, 2) {
            f.push(Tok::SS);
        }
        if ty != Ty::Ora && (!partial || rng.chance(1, 2)) {
            f.push(Tok::FF(if lossless { *rng.pick(&[None, Some(6), Some(7), Some(8), Some(9)]) } else { *rng.pick(&[None, Some(1), Some(2), Some(3), Some(4), Some(5), Some(6), Some(7), Some(8), Some(9)]) }));
        }
    }
    f
}

fn fixed_width_numeric(ty: Ty, t: &Tok) -> bool {
    match t {
        Tok::Year(n) => *n == 4 && !ty.is_interval(),
        Tok::MM | Tok::DDD | Tok::D | Tok::HH12 | Tok::HH24 | Tok::MI | Tok::SS => true,
        Tok::DD => ty != Ty::DT,
        Tok::FF(Some(_)) => true,
        _ => false,
    }
}
fn is_alpha_field(t: &Tok) -> bool {
    matches!(t, Tok::Mon(_) | Tok::Month(_) | Tok::Day(_) | Tok::Dy(_) | Tok::Mer { .. })
}
fn styled_tok_text(rng: &mut Rng, t: &Tok) -> String {
    // picture spelling; for non-name tokens the letter case is free
    let base = tok_text(t);
    match t {
        Tok::Mon(_) | Tok::Month(_) | Tok::Day(_) | Tok::Dy(_) | Tok::T | Tok::Punct(_) | Tok::Blank(_) => base,
        Tok::HH12 => {
            let b = if rng.chance(1, 2) { "HH" } else { "HH12" };
            if rng.chance(1, 3) {
                b.to_lowercase()
            } else {
                b.to_string()
            }
        }
        Tok::Mer { dots } => {
            let pm = rng.chance(1, 2);
            let s = match (pm, dots) {
                (false, false) => "AM",
                (true, false) => "PM",
                (false, true) => "A.M.",
                (true, true) => "P.M.",
            };
            if rng.chance(1, 3) {
                s.to_lowercase()
            } else {
                s.to_string()
            }
        }
        _ => {
            if rng.chance(1, 3) {
                base.to_lowercase()
            } else {
                base
            }
        }
    }
}

pub struct GenPic {
    pub text: String,
    pub toks: Vec<Tok>,
}

/// Generates a picture for `ty`; None when the concatenation re-lexes into something else than the
/// intended fields (such draws are skipped, never judged).
pub fn gen_picture(rng: &mut Rng, ty: Ty, lossless: bool) -> Option<GenPic> {
    let mut fields = field_set(rng, ty, lossless);
    // random permutation
    for i in (1..fields.len()).rev() {
        let j = rng.below(i as u64 + 1) as usize;
        fields.swap(i, j);
    }
    let mut text = String::new();
    let mut intended: Vec<Tok> = vec![];
    let push_sep = |rng: &mut Rng, text: &mut String, s: &str| {
        let _ = rng;
        text.push_str(s);
    };
    if rng.chance(1, 8) {
        let s = *rng.pick(&[" ", "-", "/", ".", "  ", ","]);
        push_sep(rng, &mut text, s);
    }
    for (i, f) in fields.iter().enumerate() {
        text.push_str(&styled_tok_text(rng, f));
        if i + 1 < fields.len() {
            let next = &fields[i + 1];
            // adjacency without separator only between two fixed-width numeric fields, or a numeric and an alphabetic one
            let may_adjoin = (fixed_width_numeric(ty, f) && fixed_width_numeric(ty, next))
                || (fixed_width_numeric(ty, f) && is_alpha_field(next))
                || (is_alpha_field(f) && is_numeric(next));
            let mut sep = *rng.pick(SEPS);
            if sep.is_empty() && !may_adjoin {
                sep = *rng.pick(&["-", " ", "/", ":", "."]);
            }
            // 'T' directly after or before a name token would be read as part of a word by a human; keep it between numerics only
            if sep == "T" && (is_alpha_field(f) || is_alpha_field(next)) {
                sep = " ";
            }
            text.push_str(sep);
        }
    }
    if rng.chance(1, 10) {
        text.push_str(*rng.pick(&[" ", ".", ";", "  "]));
    }
    // now and then: pad with separators to exactly 36 tokens (the documented maximum)
    if rng.chance(1, 16) {
        if let Some(t) = tokenize(text.as_bytes()) {
            let mut n = t.len();
            let ends_blank = matches!(t.last(), Some(Tok::Blank(_)));
            if n < MAX_TOKENS && !ends_blank {
                while n + 2 <= MAX_TOKENS {
                    text.push_str(", ");
                    n += 2;
                }
                if n < MAX_TOKENS {
                    text.push(';');
                }
            }
        }
    }
    let toks = tokenize(text.as_bytes())?;
    // the picture must re-tokenise to exactly the intended fields (in order), ignoring separators
    for t in toks.iter() {
        if field_class(t).is_some() || matches!(t, Tok::W | Tok::WW) {
            intended.push(t.clone());
        }
    }
    if intended.len() != fields.len() {
        return None;
    }
    for (a, b) in intended.iter().zip(fields.iter()) {
        let same = match (a, b) {
            (Tok::Mer { dots: x }, Tok::Mer { dots: y }) => x == y,
            _ => a == b,
        };
        if !same {
            return None;
        }
    }
    if toks.len() > MAX_TOKENS {
        return None;
    }
    Some(GenPic { text, toks })
}

/// Pictures people actually write (defaults of databases and drivers, log formats): a code path special-casing one
/// of them must still treat it as the token sequence it is.
pub const WELL_KNOWN: &[&str] = &[
    "YYYY-MM-DD", "DD-MON-YYYY", "DD-MON-YY", "DD-MON-YYYY HH24:MI:SS", "YYYY-MM-DD HH24:MI:SS", "YYYY-MM-DD HH24:MI:SS.FF", "YYYY-MM-DD HH24:MI:SS.FF3", "YYYY-MM-DD HH24:MI:SS.FF6",
    "YYYY-MM-DD HH24:MI:SS.FF9", "YYYY-MM-DDTHH24:MI:SS", "YYYY-MM-DDTHH24:MI:SS.FF3", "MM/DD/YYYY", "DD/MM/YYYY", "DD.MM.YYYY", "DD.MM.YYYY HH24:MI", "YYYY/MM/DD", "YYYYMMDD", "YYYYMMDDHH24MISS",
    "HH24:MI:SS", "HH24:MI", "HH:MI:SS AM", "HH:MI AM", "HH12:MI:SS P.M.", "HH24:MI:SS.FF", "HH24:MI:SS.FF6", "MONTH DD, YYYY", "MON DD, YYYY", "DAY, DD MONTH YYYY", "DY, DD MON YYYY", "DY, DD MON YYYY HH24:MI:SS",
    "DY MON DD HH24:MI:SS YYYY", "DD MON YYYY", "DD MONTH YYYY", "MON YYYY", "MONTH YYYY", "YYYY-MM", "YYYY DDD", "YYYY-DDD", "DD-MM-YYYY", "DD-MM-YY", "MM-DD-YYYY", "YY-MM-DD", "YYYY MM DD", "YYYY.MM.DD",
    "DD HH24:MI:SS", "DD HH24:MI:SS.FF6", "DD HH24:MI:SS.FF", "YYYY-MM-DD HH:MI:SS AM", "MM/DD/YYYY HH:MI:SS AM", "DD-MON-YYYY HH:MI:SS.FF AM", "YYYY-MM-DD DAY", "DAY", "MONTH", "YYYY", "WW", "W", "D",
];

/// Re-spells a picture: every token in a random letter case (name tokens in one of the three styles or mixed), every
/// blank run lengthened by 0..2. The reference tokenizer then says what the variant means.
pub fn vary_picture(rng: &mut Rng, base: &str) -> String {
    let toks = match tokenize(base.as_bytes()) {
        Some(t) => t,
        None => return base.to_string(),
    };
    let mut out = String::new();
    for t in &toks {
        match t {
            Tok::Blank(n) => out.push_str(&" ".repeat(*n + if rng.chance(1, 3) { 1 + rng.below(2) as usize } else { 0 })),
            Tok::T | Tok::Punct(_) => out.push_str(&tok_text(t)),
            Tok::Mon(_) | Tok::Month(_) | Tok::Day(_) | Tok::Dy(_) => {
                let base = tok_text(t);
                out.push_str(&match rng.below(5) {
                    0 => base.to_uppercase(),
                    1 => base.to_lowercase(),
                    2 => {
                        let mut c = base.to_lowercase();
                        c[..1].make_ascii_uppercase();
                        c
                    }
                    3 => {
                        // lower-case first letter, upper-case second
                        let mut c = base.to_uppercase();
                        c[..1].make_ascii_lowercase();
                        c
                    }
                    _ => rcase(rng, &base),
                });
            }
            _ => out.push_str(&rcase(rng, &tok_text(t))),
        }
    }
    out
}

/// the fixed "canonical" pictures used besides the generated ones
pub fn canonical_pictures(ty: Ty) -> &'static [&'static str] {
    match ty {
        Ty::Date => &["YYYY-MM-DD", "DD/MM/YYYY", "YYYY MON DD", "DAY, DD MONTH YYYY", "YYYYMMDD", "YYYY DDD", "YYYY-DDD", "DY YYYY.MM.DD DDD", "D YYYY MON DD", "Month DD, YYYY", "dd-mon-yyyy", "YYYYDDD", "MM\\DD\\YYYY;dy"],
        Ty::Time => &["HH24:MI:SS.FF", "HH:MI:SS AM", "A.M. HH12.MI.SS.FF6", "HH24MISS", "HH24:MI:SS.FF3", "SS:MI:HH24", "PM HH:MI", "HH24:MI:SS.FF9", "HH24:MI", "HH24", "hh24-mi-ss", "HH12:MI:SS.FF7 P.M.", "MI:SS.FF2", "FF6", "MI:SS P.M.", "AM", "pm MI", "HH24:MI:SS.FF6"],
        Ty::Ts => &["YYYY-MM-DD HH24:MI:SS.FF", "YYYY-MM-DDTHH24:MI:SS.FF9", "DD-MON-YYYY HH:MI:SS.FF AM", "YYYYMMDDHH24MISSFF6", "DAY DD MONTH YYYY HH12 P.M. MI SS", "YYYY/DDD HH24:MI", "YYYY-MM-DD HH24:MI:SS.FF7", "yyyy.mm.dd hh24:mi:ss.ff3", "YYYY-MM-DD", "YYYY-MM-DD PM", "YYYY-MM-DD MI A.M.", "YYYY-MM-DD HH24:MI:SS.FF6"],
        Ty::Ora => &["YYYY-MM-DD HH24:MI:SS", "DD-MON-YYYY HH:MI:SS AM", "YYYYMMDDHH24MISS", "YYYY DDD HH24-MI-SS DY", "YYYY-MM-DD", "Month DD YYYY, HH12:MI A.M."],
        Ty::YM => &["YYYY-MM", "YY-MM", "Y MM", "YYYY/MM", "MM-YYYY", "MM", "YYYY", "YYY.MM", " YYYY-MM"],
        Ty::DT => &["DD HH24:MI:SS.FF", "DD HH24:MI:SS.FF6", "DD HH24:MI:SS", "DD HH24 MI SS FF9", "HH24:MI:SS", "DD", "HH24:MI:SS.FF DD", "MI:SS.FF3", "DD HH24:MI:SS.FF7", "FF6 SS MI HH24 DD"],
    }
}
