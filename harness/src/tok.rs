//! R-TOK (reference picture tokenizer) and R-FMT (reference renderer), written from the
//! documented token list only. No code shared with the library.

use crate::cal::{days_from_civil, doy, weekday_sun0};
use sqldatetime::{Date, Formatter, IntervalDT, IntervalYM, OracleDate, Sign, Time, Timestamp};

#[derive(Clone, Copy, Debug, PartialEq, Eq, Hash)]
pub enum Style {
    Upper,
    Capital,
    Lower,
}

#[derive(Clone, Debug, PartialEq, Eq, Hash)]
pub enum Tok {
    Year(usize),
    MM,
    Mon(Style),
    Month(Style),
    DD,
    DDD,
    D,
    Day(Style),
    Dy(Style),
    HH12,
    HH24,
    MI,
    SS,
    FF(Option<usize>),
    Mer { dots: bool },
    W,
    WW,
    T,
    Punct(u8),
    Blank(usize),
}

pub fn style_of(b: &[u8]) -> Style {
    if b[0].is_ascii_lowercase() {
        Style::Lower
    } else if b[1].is_ascii_lowercase() {
        Style::Capital
    } else {
        Style::Upper
    }
}
#[inline]
fn ci(s: &[u8], pat: &str) -> bool {
    s.len() >= pat.len() && s[..pat.len()].eq_ignore_ascii_case(pat.as_bytes())
}

pub const MAX_TOKENS: usize = 36;

/// Longest-match tokenizer over the documented token list. `lower_t_is_t`: reading in which the
/// 'T' literal is matched case-insensitively too (the statement is ambiguous; callers run both).
pub fn tokenize_opt(p: &[u8], lower_t_is_t: bool) -> Option<Vec<Tok>> {
    let mut i = 0;
    let mut out = vec![];
    while i < p.len() {
        let s = &p[i..];
        let (tok, len): (Tok, usize) = if s[0] == b' ' {
            let n = s.iter().take_while(|&&c| c == b' ').count();
            (Tok::Blank(n), n)
        } else if b"-:/\\,.;".contains(&s[0]) {
            (Tok::Punct(s[0]), 1)
        } else if s[0] == b'T' || (lower_t_is_t && s[0] == b't') {
            (Tok::T, 1)
        }
        // length 5
        else if ci(s, "MONTH") {
            (Tok::Month(style_of(s)), 5)
        }
        // length 4
        else if ci(s, "A.M.") || ci(s, "P.M.") {
            (Tok::Mer { dots: true }, 4)
        } else if ci(s, "YYYY") {
            (Tok::Year(4), 4)
        } else if ci(s, "HH24") {
            (Tok::HH24, 4)
        } else if ci(s, "HH12") {
            (Tok::HH12, 4)
        }
        // length 3
        else if ci(s, "YYY") {
            (Tok::Year(3), 3)
        } else if ci(s, "MON") {
            (Tok::Mon(style_of(s)), 3)
        } else if ci(s, "DDD") {
            (Tok::DDD, 3)
        } else if ci(s, "DAY") {
            (Tok::Day(style_of(s)), 3)
        } else if ci(s, "FF") && s.len() >= 3 && (b'1'..=b'9').contains(&s[2]) {
            (Tok::FF(Some((s[2] - b'0') as usize)), 3)
        }
        // length 2
        else if ci(s, "YY") {
            (Tok::Year(2), 2)
        } else if ci(s, "MM") {
            (Tok::MM, 2)
        } else if ci(s, "DD") {
            (Tok::DD, 2)
        } else if ci(s, "DY") {
            (Tok::Dy(style_of(s)), 2)
        } else if ci(s, "HH") {
            (Tok::HH12, 2)
        } else if ci(s, "MI") {
            (Tok::MI, 2)
        } else if ci(s, "SS") {
            (Tok::SS, 2)
        } else if ci(s, "FF") {
            (Tok::FF(None), 2)
        } else if ci(s, "AM") || ci(s, "PM") {
            (Tok::Mer { dots: false }, 2)
        } else if ci(s, "WW") {
            (Tok::WW, 2)
        }
        // length 1
        else if ci(s, "Y") {
            (Tok::Year(1), 1)
        } else if ci(s, "D") {
            (Tok::D, 1)
        } else if ci(s, "W") {
            (Tok::W, 1)
        } else {
            return None;
        };
        out.push(tok);
        i += len;
    }
    if out.len() > MAX_TOKENS {
        return None;
    }
    Some(out)
}

pub fn tokenize(p: &[u8]) -> Option<Vec<Tok>> {
    tokenize_opt(p, false)
}

/// Some(x) when both readings of the 'T' rule agree (x = the common result), None when the picture's
/// status depends on the ambiguous reading (such pictures are not judged).
pub fn tokenize_unambiguous(p: &[u8]) -> Option<Option<Vec<Tok>>> {
    let a = tokenize_opt(p, false);
    if !p.contains(&b't') {
        return Some(a);
    }
    let b = tokenize_opt(p, true);
    if a == b {
        Some(a)
    } else {
        None
    }
}

pub const MONTHS: [&str; 12] = [
    "January", "February", "March", "April", "May", "June", "July", "August", "September", "October", "November", "December",
];
pub const DAYS: [&str; 7] = ["Sunday", "Monday", "Tuesday", "Wednesday", "Thursday", "Friday", "Saturday"];

pub fn styled(s: &str, st: Style) -> String {
    match st {
        Style::Upper => s.to_uppercase(),
        Style::Lower => s.to_lowercase(),
        Style::Capital => s.to_string(),
    }
}

/// A value by its fields (what the harness knows independently of the library's representation).
#[derive(Clone, Copy, Debug, PartialEq, Eq, Hash)]
pub enum V {
    Date(i32, u32, u32),
    Time(u32, u32, u32, u32),
    Ts(i32, u32, u32, u32, u32, u32, u32),
    Ora(i32, u32, u32, u32, u32, u32),
    YM(bool, u32, u32),
    DT(bool, u32, u32, u32, u32, u32),
}

#[derive(Clone, Copy, Debug, PartialEq, Eq, Hash)]
pub enum Ty {
    Date,
    Time,
    Ts,
    Ora,
    YM,
    DT,
}
pub const ALL_TY: [Ty; 6] = [Ty::Date, Ty::Time, Ty::Ts, Ty::Ora, Ty::YM, Ty::DT];

impl Ty {
    pub fn name(self) -> &'static str {
        match self {
            Ty::Date => "Date",
            Ty::Time => "Time",
            Ty::Ts => "Timestamp",
            Ty::Ora => "OracleDate",
            Ty::YM => "IntervalYM",
            Ty::DT => "IntervalDT",
        }
    }
    pub fn from_name(s: &str) -> Option<Ty> {
        ALL_TY.iter().copied().find(|t| t.name() == s)
    }
    pub fn has_date(self) -> bool {
        matches!(self, Ty::Date | Ty::Ts | Ty::Ora)
    }
    pub fn has_time(self) -> bool {
        matches!(self, Ty::Time | Ty::Ts | Ty::Ora | Ty::DT)
    }
    pub fn has_frac(self) -> bool {
        matches!(self, Ty::Time | Ty::Ts | Ty::DT)
    }
    pub fn is_interval(self) -> bool {
        matches!(self, Ty::YM | Ty::DT)
    }
    /// does the token apply to values of this type (formatting)?
    pub fn applies(self, t: &Tok) -> bool {
        match t {
            Tok::Blank(_) | Tok::Punct(_) | Tok::T => true,
            Tok::Year(_) | Tok::MM => self.has_date() || self == Ty::YM,
            Tok::DD => self.has_date() || self == Ty::DT,
            Tok::Mon(_) | Tok::Month(_) | Tok::DDD | Tok::D | Tok::Day(_) | Tok::Dy(_) | Tok::W | Tok::WW => self.has_date(),
            Tok::HH24 | Tok::MI | Tok::SS => self.has_time(),
            Tok::HH12 | Tok::Mer { .. } => self.has_time() && !self.is_interval(),
            Tok::FF(_) => self.has_frac(),
        }
    }
}

impl V {
    pub fn ty(&self) -> Ty {
        match self {
            V::Date(..) => Ty::Date,
            V::Time(..) => Ty::Time,
            V::Ts(..) => Ty::Ts,
            V::Ora(..) => Ty::Ora,
            V::YM(..) => Ty::YM,
            V::DT(..) => Ty::DT,
        }
    }
    pub fn date(&self) -> Option<(i32, u32, u32)> {
        match *self {
            V::Date(y, m, d) | V::Ts(y, m, d, ..) | V::Ora(y, m, d, ..) => Some((y, m, d)),
            _ => None,
        }
    }
    pub fn time(&self) -> Option<(u32, u32, u32)> {
        match *self {
            V::Time(h, mi, s, _) | V::Ts(_, _, _, h, mi, s, _) | V::Ora(_, _, _, h, mi, s) | V::DT(_, _, h, mi, s, _) => Some((h, mi, s)),
            _ => None,
        }
    }
    pub fn frac(&self) -> Option<u32> {
        match *self {
            V::Time(_, _, _, us) | V::Ts(_, _, _, _, _, _, us) | V::DT(_, _, _, _, _, us) => Some(us),
            _ => None,
        }
    }
    pub fn negative(&self) -> bool {
        matches!(*self, V::YM(true, ..) | V::DT(true, ..))
    }
    /// canonical text for replay files / reports
    pub fn show(&self) -> String {
        match *self {
            V::Date(y, m, d) => format!("Date {:04}-{:02}-{:02}", y, m, d),
            V::Time(h, mi, s, us) => format!("Time {:02}:{:02}:{:02}.{:06}", h, mi, s, us),
            V::Ts(y, m, d, h, mi, s, us) => format!("Timestamp {:04}-{:02}-{:02} {:02}:{:02}:{:02}.{:06}", y, m, d, h, mi, s, us),
            V::Ora(y, m, d, h, mi, s) => format!("OracleDate {:04}-{:02}-{:02} {:02}:{:02}:{:02}", y, m, d, h, mi, s),
            V::YM(n, y, m) => format!("IntervalYM {}{}-{:02}", if n { '-' } else { '+' }, y, m),
            V::DT(n, d, h, mi, s, us) => format!("IntervalDT {}{} {:02}:{:02}:{:02}.{:06}", if n { '-' } else { '+' }, d, h, mi, s, us),
        }
    }
    pub fn to_json(&self) -> serde_json::Value {
        use serde_json::json;
        match *self {
            V::Date(y, m, d) => json!({"ty":"Date","f":[y,m,d]}),
            V::Time(h, mi, s, us) => json!({"ty":"Time","f":[h,mi,s,us]}),
            V::Ts(y, m, d, h, mi, s, us) => json!({"ty":"Timestamp","f":[y,m,d,h,mi,s,us]}),
            V::Ora(y, m, d, h, mi, s) => json!({"ty":"OracleDate","f":[y,m,d,h,mi,s]}),
            V::YM(n, y, m) => json!({"ty":"IntervalYM","f":[n as u32,y,m]}),
            V::DT(n, d, h, mi, s, us) => json!({"ty":"IntervalDT","f":[n as u32,d,h,mi,s,us]}),
        }
    }
    pub fn from_json(v: &serde_json::Value) -> Option<V> {
        let ty = v.get("ty")?.as_str()?;
        let f: Vec<i64> = v.get("f")?.as_array()?.iter().map(|x| x.as_i64().unwrap_or(0)).collect();
        let u = |i: usize| f.get(i).copied().unwrap_or(0) as u32;
        Some(match ty {
            "Date" => V::Date(f[0] as i32, u(1), u(2)),
            "Time" => V::Time(u(0), u(1), u(2), u(3)),
            "Timestamp" => V::Ts(f[0] as i32, u(1), u(2), u(3), u(4), u(5), u(6)),
            "OracleDate" => V::Ora(f[0] as i32, u(1), u(2), u(3), u(4), u(5)),
            "IntervalYM" => V::YM(f[0] != 0, u(1), u(2)),
            "IntervalDT" => V::DT(f[0] != 0, u(1), u(2), u(3), u(4), u(5)),
            _ => return None,
        })
    }
}

/// Library values (built through the public, checked constructors only).
#[derive(Clone, Copy, Debug, PartialEq)]
pub enum LV {
    Date(Date),
    Time(Time),
    Ts(Timestamp),
    Ora(OracleDate),
    YM(IntervalYM),
    DT(IntervalDT),
}

impl V {
    /// builds the library value through checked constructors; None if the library refuses the fields
    pub fn to_lib(&self) -> Option<LV> {
        Some(match *self {
            V::Date(y, m, d) => LV::Date(Date::try_from_ymd(y, m, d).ok()?),
            V::Time(h, mi, s, us) => LV::Time(Time::try_from_hms(h, mi, s, us).ok()?),
            V::Ts(y, m, d, h, mi, s, us) => LV::Ts(Timestamp::new(Date::try_from_ymd(y, m, d).ok()?, Time::try_from_hms(h, mi, s, us).ok()?)),
            V::Ora(y, m, d, h, mi, s) => LV::Ora(OracleDate::new(Date::try_from_ymd(y, m, d).ok()?, Time::try_from_hms(h, mi, s, 0).ok()?)),
            V::YM(n, y, m) => {
                let i = IntervalYM::try_from_ym(y, m).ok()?;
                LV::YM(if n { -i } else { i })
            }
            V::DT(n, d, h, mi, s, us) => {
                let i = IntervalDT::try_from_dhms(d, h, mi, s, us).ok()?;
                LV::DT(if n { -i } else { i })
            }
        })
    }
}
impl LV {
    /// the fields of a library value, through its public extractors
    pub fn to_v(&self) -> V {
        match *self {
            LV::Date(d) => {
                let (y, m, dd) = d.extract();
                V::Date(y, m, dd)
            }
            LV::Time(t) => {
                let (h, mi, s, us) = t.extract();
                V::Time(h, mi, s, us)
            }
            LV::Ts(ts) => {
                let (d, t) = ts.extract();
                let (y, m, dd) = d.extract();
                let (h, mi, s, us) = t.extract();
                V::Ts(y, m, dd, h, mi, s, us)
            }
            LV::Ora(o) => {
                let (d, t) = o.extract();
                let (y, m, dd) = d.extract();
                let (h, mi, s, _) = t.extract();
                V::Ora(y, m, dd, h, mi, s)
            }
            LV::YM(i) => {
                let (sg, y, m) = i.extract();
                V::YM(sg == Sign::Negative && i.months() != 0, y, m)
            }
            LV::DT(i) => {
                let (sg, d, h, mi, s, us) = i.extract();
                V::DT(sg == Sign::Negative && i.usecs() != 0, d, h, mi, s, us)
            }
        }
    }
    pub fn raw(&self) -> i64 {
        match *self {
            LV::Date(d) => d.days() as i64,
            LV::Time(t) => t.usecs(),
            LV::Ts(t) => t.usecs(),
            LV::Ora(o) => o.usecs(),
            LV::YM(i) => i.months() as i64,
            LV::DT(i) => i.usecs(),
        }
    }
    /// Format into a caller-supplied sink.
    pub fn format_into<W: std::fmt::Write>(&self, f: &Formatter, w: &mut W) -> Result<(), String> {
        let r = match *self {
            LV::Date(v) => f.format(v, w),
            LV::Time(v) => f.format(v, w),
            LV::Ts(v) => f.format(v, w),
            LV::Ora(v) => f.format(v, w),
            LV::YM(v) => f.format(v, w),
            LV::DT(v) => f.format(v, w),
        };
        r.map_err(|e| format!("{:?}", e))
    }
    /// day number of the value's date part, if it has one
    pub fn day_number(&self) -> Option<i64> {
        match *self {
            LV::Date(v) => Some(v.days() as i64),
            LV::Ts(v) => Some(v.usecs().div_euclid(86_400_000_000)),
            LV::Ora(v) => Some(v.usecs().div_euclid(86_400_000_000)),
            _ => None,
        }
    }
    /// Format through a text sink (fmt::Write); Err(text) = the library returned an error.
    pub fn format_with(&self, f: &Formatter) -> Result<String, String> {
        let mut s = String::new();
        let r = match *self {
            LV::Date(v) => f.format(v, &mut s),
            LV::Time(v) => f.format(v, &mut s),
            LV::Ts(v) => f.format(v, &mut s),
            LV::Ora(v) => f.format(v, &mut s),
            LV::YM(v) => f.format(v, &mut s),
            LV::DT(v) => f.format(v, &mut s),
        };
        r.map(|_| s).map_err(|e| format!("{:?}", e))
    }
}

pub fn parse_as(ty: Ty, f: &Formatter, text: &str) -> Result<LV, sqldatetime::Error> {
    Ok(match ty {
        Ty::Date => LV::Date(f.parse::<_, Date>(text)?),
        Ty::Time => LV::Time(f.parse::<_, Time>(text)?),
        Ty::Ts => LV::Ts(f.parse::<_, Timestamp>(text)?),
        Ty::Ora => LV::Ora(f.parse::<_, OracleDate>(text)?),
        Ty::YM => LV::YM(f.parse::<_, IntervalYM>(text)?),
        Ty::DT => LV::DT(f.parse::<_, IntervalDT>(text)?),
    })
}

/// R-FMT. Err(()) = some token does not apply to the value's type => the real formatter must fail.
pub fn render(v: &V, toks: &[Tok]) -> Result<String, ()> {
    use std::fmt::Write;
    let ty = v.ty();
    let mut o = String::new();
    if ty.is_interval() {
        o.push(if v.negative() { '-' } else { '+' });
    }
    let wd = |y: i32, m: u32, d: u32| weekday_sun0(days_from_civil(y as i64, m as i64, d as i64)) as usize;
    for t in toks {
        if !ty.applies(t) {
            return Err(());
        }
        match t {
            Tok::Blank(n) => {
                for _ in 0..*n {
                    o.push(' ')
                }
            }
            Tok::Punct(c) => o.push(*c as char),
            Tok::T => o.push('T'),
            Tok::Year(n) => {
                if let Some((y, _, _)) = v.date() {
                    write!(o, "{:0w$}", (y as u32) % 10u32.pow(*n as u32), w = *n).unwrap()
                } else if let V::YM(_, y, _) = *v {
                    write!(o, "{:0w$}", y, w = *n).unwrap()
                }
            }
            Tok::MM => {
                if let Some((_, m, _)) = v.date() {
                    write!(o, "{:02}", m).unwrap()
                } else if let V::YM(_, _, m) = *v {
                    write!(o, "{:02}", m).unwrap()
                }
            }
            Tok::DD => {
                if let Some((_, _, d)) = v.date() {
                    write!(o, "{:02}", d).unwrap()
                } else if let V::DT(_, d, ..) = *v {
                    write!(o, "{:02}", d).unwrap()
                }
            }
            Tok::Mon(st) => {
                let (_, m, _) = v.date().unwrap();
                o.push_str(&styled(&MONTHS[m as usize - 1][..3], *st))
            }
            Tok::Month(st) => {
                let (_, m, _) = v.date().unwrap();
                o.push_str(&styled(MONTHS[m as usize - 1], *st))
            }
            Tok::DDD => {
                let (y, m, d) = v.date().unwrap();
                write!(o, "{:03}", doy(y as i64, m, d)).unwrap()
            }
            Tok::D => {
                let (y, m, d) = v.date().unwrap();
                write!(o, "{}", wd(y, m, d) + 1).unwrap()
            }
            Tok::Day(st) => {
                let (y, m, d) = v.date().unwrap();
                o.push_str(&styled(DAYS[wd(y, m, d)], *st))
            }
            Tok::Dy(st) => {
                let (y, m, d) = v.date().unwrap();
                o.push_str(&styled(&DAYS[wd(y, m, d)][..3], *st))
            }
            Tok::W => {
                let (_, _, d) = v.date().unwrap();
                write!(o, "{}", (d - 1) / 7 + 1).unwrap()
            }
            Tok::WW => {
                let (y, m, d) = v.date().unwrap();
                write!(o, "{:02}", (doy(y as i64, m, d) - 1) / 7 + 1).unwrap()
            }
            Tok::HH24 => {
                let (h, _, _) = v.time().unwrap();
                write!(o, "{:02}", h).unwrap()
            }
            Tok::HH12 => {
                let (h, _, _) = v.time().unwrap();
                write!(o, "{:02}", if h % 12 == 0 { 12 } else { h % 12 }).unwrap()
            }
            Tok::MI => {
                let (_, m, _) = v.time().unwrap();
                write!(o, "{:02}", m).unwrap()
            }
            Tok::SS => {
                let (_, _, s) = v.time().unwrap();
                write!(o, "{:02}", s).unwrap()
            }
            Tok::FF(n) => {
                let us = v.frac().unwrap();
                let full = format!("{:06}000", us);
                o.push_str(&full[..n.unwrap_or(6)])
            }
            Tok::Mer { dots } => {
                let (h, _, _) = v.time().unwrap();
                o.push_str(match (h < 12, dots) {
                    (true, false) => "AM",
                    (false, false) => "PM",
                    (true, true) => "A.M.",
                    (false, true) => "P.M.",
                })
            }
        }
    }
    Ok(o)
}

/// Compares rendered text with the reference, treating the letter case of the meridian indicator
/// as unspecified: both strings are compared after upper-casing exactly the positions where the
/// reference has a meridian token. Implemented by re-rendering with a marker.
pub fn texts_agree(real: &str, v: &V, toks: &[Tok]) -> bool {
    let exp = match render(v, toks) {
        Ok(e) => e,
        Err(()) => return false,
    };
    if real == exp {
        return true;
    }
    if !toks.iter().any(|t| matches!(t, Tok::Mer { .. })) {
        return false;
    }
    if real.len() != exp.len() {
        return false;
    }
    // positions covered by meridian tokens in `exp`
    let mut mask = vec![false; exp.len()];
    let mut pos = if v.ty().is_interval() { 1 } else { 0 };
    for t in toks {
        let piece = render_one(v, t);
        if matches!(t, Tok::Mer { .. }) {
            for k in pos..pos + piece.len() {
                mask[k] = true;
            }
        }
        pos += piece.len();
    }
    real.bytes().zip(exp.bytes()).zip(mask.iter()).all(|((a, b), m)| if *m { a.eq_ignore_ascii_case(&b) } else { a == b })
}

fn render_one(v: &V, t: &Tok) -> String {
    // render a single token without the interval sign
    let s = render(v, std::slice::from_ref(t)).unwrap_or_default();
    if v.ty().is_interval() {
        s[1..].to_string()
    } else {
        s
    }
}

/// Picture text for a token (canonical upper-case spelling, style-aware for names).
pub fn tok_text(t: &Tok) -> String {
    fn st(s: &str, style: Style) -> String {
        match style {
            Style::Upper => s.to_uppercase(),
            Style::Lower => s.to_lowercase(),
            Style::Capital => {
                let mut c = s.to_lowercase();
                c[..1].make_ascii_uppercase();
                c
            }
        }
    }
    match t {
        Tok::Year(n) => "Y".repeat(*n),
        Tok::MM => "MM".into(),
        Tok::Mon(s) => st("MON", *s),
        Tok::Month(s) => st("MONTH", *s),
        Tok::DD => "DD".into(),
        Tok::DDD => "DDD".into(),
        Tok::D => "D".into(),
        Tok::Day(s) => st("DAY", *s),
        Tok::Dy(s) => st("DY", *s),
        Tok::HH12 => "HH12".into(),
        Tok::HH24 => "HH24".into(),
        Tok::MI => "MI".into(),
        Tok::SS => "SS".into(),
        Tok::FF(None) => "FF".into(),
        Tok::FF(Some(n)) => format!("FF{}", n),
        Tok::Mer { dots: false } => "AM".into(),
        Tok::Mer { dots: true } => "A.M.".into(),
        Tok::W => "W".into(),
        Tok::WW => "WW".into(),
        Tok::T => "T".into(),
        Tok::Punct(c) => (*c as char).to_string(),
        Tok::Blank(n) => " ".repeat(*n),
    }
}
