//! C06 - format then parse with the same lossless picture returns the original value.
use crate::cal::cal;
use crate::core::*;
use crate::props::c04::rand_value;
use crate::props::c05::{obs_lv, pin_clock};
use crate::spell::*;
use crate::tok::*;
use serde_json::{json, Value};
use sqldatetime::Formatter;

#[derive(Clone, Copy)]
pub struct R<'a> {
    pub v: V,
    pub pic: &'a str,
    pub f: &'a Formatter,
    /// stratum tag for interval pictures: does the picture start with the sign-carrying field?
    pub tag: &'a str,
    /// index of the injected "current date" (a lossless picture must not care), 0 = the pinned default
    pub clk: u8,
    /// bit k: before the round trip the same Formatter object is asked to parse the text as type ALL_TY[k]
    pub pre: u8,
}
/// hostile "current dates": short months, leap day, range ends, year ends
pub const CLOCKS: &[(i32, u32, u32)] = &[(2021, 3, 11), (2023, 2, 15), (2024, 2, 29), (2025, 4, 30), (1, 1, 1), (9999, 12, 31), (2000, 1, 31), (1999, 12, 31), (2022, 6, 1), (2026, 11, 30), (1900, 2, 28), (2026, 9, 9)];
pub fn clk_of(h: u64) -> u8 {
    (h % CLOCKS.len() as u64) as u8
}
impl<'a> Case for R<'a> {
    fn to_json(&self) -> Value {
        json!({"kind": "roundtrip", "value": self.v.to_json(), "show": self.v.show(), "picture": self.pic, "tag": self.tag, "clock": self.clk, "pre": self.pre})
    }
}

pub fn check(st: &mut Stats, c: &R) {
    if c.clk == 0 {
        pin_clock();
    } else {
        let (y, m, d) = CLOCKS[c.clk as usize % CLOCKS.len()];
        sqldatetime::verif_hooks::set_clock(y, m, d, 23, 59, 59, 999_999);
        st.bump("round trips under a hostile injected current date");
    }
    let lv = match c.v.to_lib() {
        Some(x) => x,
        None => {
            st.skipped += 1;
            return;
        }
    };
    let ty = c.v.ty();
    st.op(Op::F_format);
    // both entry points: Formatter::format into a String, and the type's own format(picture) + Display
    let via_display = (c.clk as usize + c.pic.len()) % 2 == 1;
    let rendered = if via_display {
        use std::fmt::Write;
        let mut s = String::new();
        macro_rules! via {
            ($x:expr) => {
                match $x.format(c.pic) {
                    Ok(d) => write!(s, "{}", d).map(|_| s).map_err(|_| "fmt::Error".to_string()),
                    Err(e) => Err(format!("{:?}", e)),
                }
            };
        }
        match lv {
            LV::Date(x) => via!(x),
            LV::Time(x) => via!(x),
            LV::Ts(x) => via!(x),
            LV::Ora(x) => via!(x),
            LV::YM(x) => via!(x),
            LV::DT(x) => via!(x),
        }
    } else {
        lv.format_with(c.f)
    };
    let text = match rendered {
        Ok(t) => t,
        Err(e) => return st.fail(format!("C06/{}/format-fails", ty.name()), format!("{} under {:?}: {}", c.v.show(), c.pic, e)),
    };
    if c.pre != 0 {
        // history: the same Formatter object first serves other types (whatever they answer), then this one
        for (k, ty2) in ALL_TY.iter().enumerate() {
            if c.pre >> k & 1 == 1 && *ty2 != ty {
                st.op(Op::F_parse);
                let _ = parse_as(*ty2, c.f, &text);
                st.bump("round trips after the same Formatter object served another type");
            }
        }
    }
    st.op(Op::F_parse);
    match parse_as(ty, c.f, &text) {
        Ok(back) => {
            obs_lv(st, Op::F_parse, &back);
            if back.raw() != lv.raw() {
                st.fail(format!("C06/{}/roundtrip/different-value{}", ty.name(), c.tag), format!("{} --{:?}--> {:?} --parse--> {}", c.v.show(), c.pic, text, back.to_v().show()));
                return;
            }
            match back.format_with(c.f) {
                Ok(t2) if t2 == text => {}
                other => st.fail(format!("C06/{}/reformat-differs", ty.name()), format!("{} under {:?}: {:?} then {:?}", c.v.show(), c.pic, text, other)),
            }
        }
        Err(e) => st.fail(format!("C06/{}/roundtrip/parse-fails{}", ty.name(), c.tag), format!("{} --{:?}--> {:?} --parse--> {:?}", c.v.show(), c.pic, text, e)),
    }
}

fn interval_tag(ty: Ty, toks: &[Tok]) -> &'static str {
    if !ty.is_interval() {
        return "";
    }
    let first_is_sign_field = match toks.first() {
        Some(Tok::Year(_)) => ty == Ty::YM,
        Some(Tok::DD) => ty == Ty::DT,
        _ => false,
    };
    if first_is_sign_field {
        "/sign-field-first"
    } else {
        "/other-field-order-or-leading-separator"
    }
}

struct PicF {
    text: String,
    toks: Vec<Tok>,
    f: Formatter,
}
fn compile(st: &mut Stats, text: String, toks: Vec<Tok>) -> Option<PicF> {
    // the picture is a documented lossless one (re-tokenised by the reference): refusing it breaks the round trip
    let f = compile_picture(st, &text, Some("C06/lossless-picture-rejected"))?;
    Some(PicF { text, toks, f })
}

pub const FIXED_DATE_PICS: &[&str] = &["YYYY-MM-DD", "DD/MM/YYYY", "YYYYMMDD", "DAY, DD MONTH YYYY", "DY YYYY.MM.DD DDD", "D YYYY MON DD", "YYYY DDD", "Month dd, yyyy"];

pub fn run(ctx: &Ctx, st: &mut Stats) {
    cal();
    // generated pictures per type (seeded): a fixed pool reused across values keeps Formatter construction out of the hot loop
    let npics = ctx.tier.pick(6, 60, ctx.big(400, 1500) as usize);
    let mut rng = Rng::new(mix(ctx.seed, 0xC06));
    let mut pools: Vec<Vec<PicF>> = vec![];
    st.stratum("lossless pictures (compiled inside the panic boundary)", false);
    for ty in ALL_TY {
        let mut v: Vec<PicF> = vec![];
        if ty == Ty::Date {
            for p in FIXED_DATE_PICS {
                if let Some(x) = compile(st, p.to_string(), tokenize(p.as_bytes()).unwrap()) {
                    v.push(x);
                }
            }
        }
        let mut tries = 0;
        while v.len() < npics + if ty == Ty::Date { FIXED_DATE_PICS.len() } else { 0 } && tries < npics * 20 {
            tries += 1;
            match gen_picture(&mut rng, ty, true) {
                Some(g) => {
                    if v.iter().any(|p| p.text == g.text) {
                        continue;
                    }
                    if let Some(x) = compile(st, g.text, g.toks) {
                        v.push(x);
                    }
                }
                None => st.skipped += 1,
            }
        }
        pools.push(v);
    }
    let pools = &pools;
    // all dates x date pictures
    let stride = ctx.tier.pick(40_009, ctx.q(11, 1), 1);
    ctx.par(st, "all dates x fixed + generated lossless date pictures", true, 0, (N_DAYS as i64 + stride - 1) / stride, |st, i, _| {
        let (y, m, d) = cal().of(MIN_DAY + (i * stride) as i32);
        let ps = &pools[0];
        // all fixed pictures + a rotating window of the generated ones
        for (k, p) in ps.iter().enumerate() {
            if k < FIXED_DATE_PICS.len() || (k + i as usize) % 8 == 0 {
                st.eval(&R { v: V::Date(y, m, d), pic: &p.text, f: &p.f, tag: "", clk: clk_of(i as u64 / 3 + k as u64), pre: if (i + k as i64) % 5 == 0 { 0b111110 } else { 0 } }, check);
            }
        }
    });
    if stride == 1 {
        st.mark_exhaustive("all dates x fixed + generated lossless date pictures", "all 3,652,059 dates x 8 fixed pictures + 1/8 of the generated pictures each");
    }
    // all seconds x generated time pictures
    let sstride = ctx.tier.pick(1801, 1, 1);
    ctx.par(st, "all seconds x generated lossless time pictures", true, 0, 86_400 / sstride, |st, i, _| {
        let s = i * sstride;
        let (h, mi, sec) = ((s / 3600) as u32, (s / 60 % 60) as u32, (s % 60) as u32);
        for (k, p) in pools[1].iter().enumerate() {
            if (k + i as usize) % 4 == 0 {
                st.eval(&R { v: V::Time(h, mi, sec, ((s * 7919) % 1_000_000) as u32), pic: &p.text, f: &p.f, tag: "", clk: 0, pre: if i % 3 == 0 { 0b100000 } else { 0 } }, check);
            }
        }
    });
    // pool dates x bit-structured times (Timestamp) x pooled pictures
    let bts = crate::pools::bit_times();
    let dpool = crate::pools::date_pool();
    let (bts_ref, dpool_ref) = (&bts, &dpool);
    let bstep = ctx.tier.pick(9973, 13, 1);
    ctx.par(st, "pool dates x bit-structured times (Timestamp) x pooled lossless pictures", true, 0, (dpool.len() * bts.len()) as i64 / bstep, |st, i, _| {
        let i = (i * bstep) as usize;
        let (y, m, d) = cal().of(dpool_ref[i / bts_ref.len()]);
        let t = bts_ref[i % bts_ref.len()];
        let v = V::Ts(y, m, d, (t / 3_600_000_000) as u32, (t / 60_000_000 % 60) as u32, (t / 1_000_000 % 60) as u32, (t % 1_000_000) as u32);
        let ps = &pools[2];
        if !ps.is_empty() {
            let p = &ps[i % ps.len()];
            st.eval(&R { v, pic: &p.text, f: &p.f, tag: "", clk: clk_of(i as u64), pre: if i % 2 == 0 { 0b001000 } else { 0 } }, check);
        }
    });
    // boundary + random values of every type x generated pictures (fresh pictures as well, thorough)
    let n = ctx.tier.pick(600, 800_000, ctx.big(16_000_000, 100_000_000));
    ctx.par(st, "boundary+random values x generated lossless pictures, all six types", false, 0, n, |st, i, rng| {
        let tyi = (i % 6) as usize;
        let ty = ALL_TY[tyi];
        let v = rand_value(rng, ty);
        if rng.chance(1, 4) {
            // a fresh picture
            match gen_picture(rng, ty, true) {
                Some(g) => {
                    if let Some(f) = compile_picture(st, &g.text, Some("C06/lossless-picture-rejected")) {
                        let tag = interval_tag(ty, &g.toks);
                        let h = mix(hash64(g.text.as_bytes()), hash64(v.show().as_bytes()));
                        st.eval_h(h, &R { v, pic: &g.text, f: &f, tag, clk: clk_of(h), pre: if h >> 8 & 3 == 0 { (h >> 10) as u8 & 63 } else { 0 } }, check);
                    }
                }
                None => st.skipped += 1,
            }
        } else {
            let ps = &pools[tyi];
            if ps.is_empty() {
                st.skipped += 1;
                return;
            }
            let p = &ps[rng.below(ps.len() as u64) as usize];
            let tag = interval_tag(ty, &p.toks);
            let h = mix(hash64(p.text.as_bytes()), hash64(v.show().as_bytes()));
            let c = R { v, pic: &p.text, f: &p.f, tag, clk: clk_of(h), pre: if h >> 8 & 3 == 0 { (h >> 10) as u8 & 63 } else { 0 } };
            let anchors: Vec<i64> = v.to_lib().and_then(|x| x.day_number()).into_iter().collect();
            crate::primers::eval_sched(st, rng, h, &c, &anchors, 0, &[], check);
        }
    });
    // record how many distinct pictures were in play
    for (i, p) in pools.iter().enumerate() {
        st.bumpn(&format!("lossless_pictures_in_pool/{}", ALL_TY[i].name()), p.len() as u64);
    }
}

pub fn replay(v: &Value, st: &mut Stats) -> bool {
    if jstr(v, "kind") != "roundtrip" {
        return false;
    }
    let val = match v.get("value").and_then(V::from_json) {
        Some(x) => x,
        None => return false,
    };
    let p = jstr(v, "picture");
    let tag = jstr(v, "tag");
    if let Some(f) = compile_picture(st, &p, Some("C06/lossless-picture-rejected")) {
        let clk = v.get("clock").and_then(|x| x.as_u64()).unwrap_or(0) as u8;
        let pre = v.get("pre").and_then(|x| x.as_u64()).unwrap_or(0) as u8;
        st.eval(&R { v: val, pic: &p, f: &f, tag: &tag, clk, pre }, check);
    }
    true
}
