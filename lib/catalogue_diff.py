#!/usr/bin/env python3
"""Lists safe public functions / trait methods found in /repo/src that no entry of the harness op catalogue
(harness/src/core.rs, `ops!`) mentions. Informational (evidence key `uncatalogued_ops`), never a verdict."""
import os, re, sys, json
ROOT = os.path.dirname(os.path.dirname(os.path.abspath(__file__)))
TYPE_OF_FILE = {"date.rs": "Date", "time.rs": "Time", "timestamp.rs": "Timestamp", "interval.rs": None, "oracle.rs": "OracleDate", "format.rs": None, "serialize.rs": None}

def catalogue():
    src = open(os.path.join(ROOT, "harness/src/core.rs")).read()
    blk = src[src.index("ops! {"):src.index("// ---------------------------------------------------------------- PRNG")]
    return re.findall(r'= "([^"]+)"', blk)

def functions():
    out = []
    for f in sorted(os.listdir("/repo/src")):
        if not f.endswith(".rs") or f in ("verif_hooks.rs", "util.rs", "common.rs", "error.rs", "lib.rs", "serialize.rs"):
            continue
        text = open(os.path.join("/repo/src", f)).read()
        cut = text.find("#[cfg(test)]")
        if cut >= 0:
            text = text[:cut]
        cur = None
        for line in text.splitlines():
            m = re.match(r"\s*impl(?:<[^>]*>)?\s+(?:([\w:<>]+)\s+for\s+)?([\w:]+)", line)
            if m and not line.startswith(" " * 8):
                trait, ty = m.group(1), m.group(2)
                ty = {"Date": "OracleDate" if f == "oracle.rs" else "Date", "SqlDate": "Date"}.get(ty, ty)
                cur = (ty, trait)
                continue
            m = re.match(r"\s*(pub(?:\(crate\))?\s+)?(const\s+)?(unsafe\s+)?fn\s+(\w+)", line)
            if m and cur:
                vis, _, unsafe_, name = m.groups()
                ty, trait = cur
                if unsafe_ or (vis and "crate" in vis):
                    continue
                if not vis and not trait:
                    continue  # private inherent fn
                if ty in ("FormatParser", "NaiveDateTime", "AmPmStyle", "WeekDay", "Month", "LazyFormat", "CaseInsensitive"):
                    continue  # not re-exported from the crate root
                out.append((ty, trait, name))
    return out

def covered(ty, trait, name, cat):
    if trait in ("Trunc", "Round"):
        return any(c.startswith(ty + "::") and ("trunc_*" in c if trait == "Trunc" else "round_*" in c) for c in cat)
    if trait == "DateTime":
        return any(c.startswith(ty + "::{") for c in cat)
    if trait and trait.startswith(("PartialEq", "PartialOrd")):
        return any(c.startswith(ty + "<=>") or c.startswith(ty + "::{eq") for c in cat)
    if trait and (trait.startswith(("From", "TryFrom", "Neg", "Serialize", "Deserialize", "DateTimeFormat", "fmt::Display", "Iterator"))):
        return True  # conversions are catalogued under the target type's from()/try_from() entries; serde under S_*
    return any(c == "%s::%s" % (ty, name) or (c.startswith(ty + "::") and name in c) for c in cat)

if __name__ == "__main__":
    cat = catalogue()
    missing = sorted({"%s::%s%s" % (ty, name, " (%s)" % trait if trait else "") for ty, trait, name in functions() if not covered(ty, trait, name, cat)})
    print(json.dumps(missing))
