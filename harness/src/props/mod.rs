//! One driver (workload + oracle) per property.
use crate::core::{Ctx, Stats};
use serde_json::Value;

pub mod c01;
pub mod c19;

pub fn run(ctx: &Ctx, st: &mut Stats) -> bool {
    match ctx.prop.as_str() {
        "C01" => c01::run(ctx, st),
        "C19" => c19::run(ctx, st),
        _ => return false,
    }
    true
}

pub fn replay(prop: &str, case: &Value, st: &mut Stats) -> bool {
    match prop {
        "C01" => c01::replay(case, st),
        "C19" => c19::replay(case, st),
        _ => false,
    }
}
