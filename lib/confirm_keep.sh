#!/bin/bash
# Confirms property-preserving candidate changes in a scratch worktree: patch applies, three builds, both test
# suites green, the author's probe passes with the patch. usage: confirm_keep.sh <worker-id> <candidate dirs...>
ID="$1"; shift
WT=/tmp/keep-$ID
git -C /repo worktree add -q --detach "$WT" HEAD || exit 1
cp /repo/Cargo.lock "$WT"/
export CARGO_NET_OFFLINE=true
cd "$WT"
FEAT='oracle serde verif-hooks'
for C in "$@"; do
  for k in 1 2 3; do
    P="$C/mut$k.diff"; D="$C/probe$k.rs"
    [ -f "$P" ] || continue
    git checkout -q -- . ; rm -rf tests
    if ! git apply "$P" 2>/dev/null; then echo "{\"applies\": false}" > "$C/keepconfirm$k.json"; continue; fi
    b1=false; b2=false; b3=false
    cargo build --offline -q 2>/dev/null && b1=true
    cargo build --offline -q --features "oracle serde" 2>/dev/null && b2=true
    cargo build --offline -q --features "$FEAT" 2>/dev/null && b3=true
    base=$(cargo test --offline 2>&1 | grep -E "^test result" | tr '\n' ';' | sed 's/"/ /g')
    feat=$(cargo test --offline --features "oracle serde" 2>&1 | grep -E "^test result" | tr '\n' ';' | sed 's/"/ /g')
    mkdir -p tests; cp "$D" tests/probe.rs
    if timeout 1200 cargo test --release --offline --features "$FEAT" --test probe >/dev/null 2>&1; then pp=true; else pp=false; fi
    rm -rf tests
    echo "{\"applies\": true, \"builds\": [$b1,$b2,$b3], \"baseline_tests\": \"$base\", \"feature_tests\": \"$feat\", \"probe_passes_with_patch\": $pp}" > "$C/keepconfirm$k.json"
  done
done
cd /; git -C /repo worktree remove --force "$WT"
