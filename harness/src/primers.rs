//! Cross-operation history monitor. Every operation of the library is a pure function of its arguments (and of the
//! clock where the property says so), so a judged case must come out the same whatever *other* operation ran on the
//! thread just before it. A "primer" is such an other operation on a related value: its own result is not judged here
//! (its own driver does that) - what is judged is the case that follows. Primers are recorded with the case, so a
//! failing primed case replays as the same short history in a fresh process.
use crate::cal::{cal, dim};
use crate::core::*;
use crate::trmodel::{lib_apply, TyK, UNITS};
use serde_json::{json, Value};
use sqldatetime::{Date, DateTime, Formatter, IntervalDT, IntervalYM, OracleDate, Time, Timestamp};
use std::convert::TryFrom;
use std::fmt::Write;

#[derive(Clone, Copy, Debug, PartialEq)]
pub struct Primer {
    pub op: u16,
    pub day: i64,
    pub tod: i64,
    pub k: i64,
}
pub const N_OPS: u16 = 26;

impl Primer {
    pub fn to_json(&self) -> Value {
        json!({"op": self.op, "op_name": op_name(self.op), "day": self.day, "tod_us": self.tod, "k": self.k})
    }
    pub fn from_json(v: &Value) -> Option<Primer> {
        Some(Primer { op: v.get("op")?.as_u64()? as u16, day: v.get("day")?.as_i64()?, tod: v.get("tod_us")?.as_i64()?, k: v.get("k")?.as_i64()? })
    }
}

pub fn op_name(op: u16) -> &'static str {
    match op {
        0 => "Date::last_day_of_month",
        1 => "Timestamp::last_day_of_month",
        2 => "OracleDate::last_day_of_month",
        3 => "Date::add_interval_ym",
        4 => "Timestamp::add_interval_ym",
        5 => "OracleDate::add_interval_ym",
        6 => "Date trunc/round (unit from k)",
        7 => "Timestamp trunc/round (unit from k)",
        8 => "OracleDate trunc/round (unit from k)",
        9 => "now() constructors under an injected clock",
        10 => "Display of a formatted value (applicable picture)",
        11 => "Display that fails on an inapplicable token after rendering some fields",
        12 => "Display into a sink that fails",
        13 => "parse of a valid text",
        14 => "parse of y-m-(d+delta), possibly past the month end (once or twice)",
        15 => "serde_json decode of a valid text, then of y-m-(d+delta) twice",
        16 => "serde_json / bincode encode",
        17 => "extract / date / time / field accessors",
        18 => "linear arithmetic (add_days, sub_date, add_interval_dt)",
        19 => "Time arithmetic (add_interval_dt, from(IntervalDT), mul_f64, div_f64)",
        20 => "interval extract / accessors / negation",
        21 => "mixed-type comparisons",
        22 => "day_of_week",
        23 => "Time -> Timestamp / OracleDate under an injected clock",
        24 => "one Formatter object parsing a text as Timestamp and as OracleDate",
        25 => "Formatter::format into a String (all six types, some inapplicable)",
        _ => "?",
    }
}

fn set_clock(n: i64, tod: i64) -> bool {
    let (y, m, d) = cal().of(n as i32);
    sqldatetime::verif_hooks::set_clock(y, m, d, (tod / 3_600_000_000) as u32, (tod / 60_000_000 % 60) as u32, (tod / 1_000_000 % 60) as u32, (tod % 1_000_000) as u32)
}

struct Limited(usize);
impl std::fmt::Write for Limited {
    fn write_str(&mut self, s: &str) -> std::fmt::Result {
        if s.len() > self.0 {
            self.0 = 0;
            return Err(std::fmt::Error);
        }
        self.0 -= s.len();
        Ok(())
    }
}

/// Executes the primer. Nothing is judged; a panic is caught by the surrounding `eval` like any other.
pub fn run(p: &Primer) {
    let n = p.day.clamp(MIN_DAY as i64, MAX_DAY as i64);
    let tod = p.tod.clamp(0, DAY_US - 1);
    let k = p.k;
    let d = Date::try_from_days(n as i32).expect("primer date");
    let t = Time::try_from_usecs(tod).expect("primer time");
    let ts = Timestamp::new(d, t);
    let o = OracleDate::new(d, t);
    let (y, m, dd) = cal().of(n as i32);
    let mut s = String::new();
    match p.op {
        0 => {
            let _ = d.last_day_of_month();
        }
        1 => {
            let _ = ts.last_day_of_month();
        }
        2 => {
            let _ = o.last_day_of_month();
        }
        3 | 4 | 5 => {
            if let Ok(iv) = IntervalYM::try_from_months(k.clamp(-(YM_LIM as i64), YM_LIM as i64) as i32) {
                match p.op {
                    3 => {
                        let _ = d.add_interval_ym(iv);
                        let _ = d.sub_interval_ym(iv);
                    }
                    4 => {
                        let _ = ts.add_interval_ym(iv);
                    }
                    _ => {
                        let _ = o.add_interval_ym(iv);
                    }
                }
            }
        }
        6 | 7 | 8 => {
            let u = UNITS[(k.unsigned_abs() as usize >> 1) % 12];
            let ty = [TyK::Date, TyK::Ts, TyK::Ora][(p.op - 6) as usize];
            let tod2 = match ty {
                TyK::Date => 0,
                TyK::Ts => tod,
                TyK::Ora => tod - tod % 1_000_000,
            };
            let _ = lib_apply(k & 1 == 1, u, ty, n, tod2);
        }
        9 => {
            if set_clock(n, tod) {
                let _ = Date::now();
                let _ = Timestamp::now();
                let _ = OracleDate::now();
            }
            sqldatetime::verif_hooks::clear_clock();
        }
        10 => {
            let pic = ["YYYY-MM-DD", "DAY, DD MONTH YYYY", "DY DD-MON-YYYY DDD", "YYYY-MM-DD HH24:MI:SS.FF6"][(k.unsigned_abs() % 4) as usize];
            if let Ok(x) = ts.format(pic) {
                let _ = write!(s, "{}", x);
            }
            if let Ok(x) = d.format("YYYY-MM-DD DAY") {
                let _ = write!(s, "{}", x);
            }
        }
        11 => {
            // the error surfaces in Display, after the first fields have been rendered
            if let Ok(x) = d.format("YYYY-MM-DD HH24:MI") {
                let _ = write!(s, "{}", x);
            }
            if let Ok(x) = t.format("HH24:MI:SS DAY") {
                let _ = write!(s, "{}", x);
            }
            if let Ok(iv) = IntervalDT::try_from_usecs(k.clamp(-DT_LIM, DT_LIM)) {
                if let Ok(x) = iv.format("DD HH24 MONTH") {
                    let _ = write!(s, "{}", x);
                }
            }
        }
        12 => {
            if let Ok(x) = ts.format("YYYY-MM-DD HH24:MI:SS.FF6") {
                let _ = write!(Limited((k.unsigned_abs() % 26) as usize), "{}", x);
            }
        }
        13 => {
            let _ = Date::parse(format!("{:04}-{:02}-{:02}", y, m, dd), "YYYY-MM-DD");
            let _ = Timestamp::parse(format!("{:04}-{:02}-{:02} 12:34:56.5", y, m, dd), "YYYY-MM-DD HH24:MI:SS.FF");
        }
        14 => {
            let delta = 1 + (k.unsigned_abs() % 3) as u32;
            let text = format!("{:04}-{:02}-{:02}", y, m, dd + delta);
            let _ = Date::parse(&text, "YYYY-MM-DD");
            if k & 4 != 0 {
                let _ = Date::parse(&text, "YYYY-MM-DD");
            }
            let _ = Timestamp::parse(format!("{} 00:00:00", text), "YYYY-MM-DD HH24:MI:SS");
        }
        15 => {
            let delta = 1 + (k.unsigned_abs() % 3) as u32;
            let _ = serde_json::from_str::<Date>(&format!("\"{:04}-{:02}-{:02}\"", y, m, dd));
            let bad = format!("\"{:04}-{:02}-{:02}\"", y, m, dd + delta);
            let _ = serde_json::from_str::<Date>(&bad);
            let _ = serde_json::from_str::<Date>(&bad);
            let _ = serde_json::from_str::<Timestamp>(&format!("\"{:04}-{:02}-{:02} 00:00:00.000000\"", y, m, dd + delta));
        }
        16 => {
            let _ = serde_json::to_string(&ts);
            let _ = serde_json::to_string(&o);
            let _ = bincode::serialize(&d);
        }
        17 => {
            let _ = ts.extract();
            let _ = (ts.date(), Time::from(ts));
            let _ = (DateTime::year(&d), DateTime::month(&d), DateTime::day(&d));
            let _ = (DateTime::year(&ts), DateTime::hour(&ts), DateTime::minute(&ts), DateTime::second(&ts));
            let _ = d.extract();
        }
        18 => {
            let _ = d.add_days(k.clamp(-4_000_000, 4_000_000) as i32);
            if let Ok(d2) = Date::try_from_days((n + k % 1000).clamp(MIN_DAY as i64, MAX_DAY as i64) as i32) {
                let _ = d.sub_date(d2);
            }
            if let Ok(iv) = IntervalDT::try_from_usecs(k.clamp(-DT_LIM, DT_LIM)) {
                let _ = ts.add_interval_dt(iv);
            }
        }
        19 => {
            if let Ok(iv) = IntervalDT::try_from_usecs(k.clamp(-DT_LIM, DT_LIM)) {
                let _ = t.add_interval_dt(iv);
                let _ = t.sub_interval_dt(iv);
                let _ = Time::from(iv);
                let _ = iv == t;
                let _ = t == iv;
            }
            let _ = t.mul_f64((k % 5000) as f64);
            let _ = t.div_f64((k % 5000) as f64 + 0.5);
        }
        20 => {
            if let Ok(iv) = IntervalDT::try_from_usecs(k.clamp(-DT_LIM, DT_LIM)) {
                let _ = iv.extract();
                let _ = (DateTime::day(&iv), DateTime::hour(&iv), DateTime::minute(&iv), DateTime::second(&iv));
                let _ = -iv;
            }
            if let Ok(iv) = IntervalYM::try_from_months((k % (YM_LIM as i64 + 1)) as i32) {
                let _ = iv.extract();
                let _ = -iv;
            }
        }
        21 => {
            let _ = (d == ts, d != ts, d < ts, d <= ts, d > ts, d >= ts);
            let _ = (ts == d, ts != d, ts < d, ts <= d, ts > d, ts >= d);
            let _ = (o == d, o <= d, d >= o, o.partial_cmp(&d));
        }
        22 => {
            let _ = d.day_of_week();
        }
        23 => {
            if set_clock(n, tod) {
                let _ = Timestamp::try_from(t);
                let _ = OracleDate::try_from(t);
            }
            sqldatetime::verif_hooks::clear_clock();
        }
        24 => {
            if let Ok(f) = Formatter::try_new("YYYY-MM-DD HH24:MI:SS.FF6") {
                let text = format!("{:04}-{:02}-{:02} 01:02:03.250000", y, m, dd);
                let _ = f.parse::<_, OracleDate>(&text);
                let _ = f.parse::<_, Timestamp>(&text);
                let _ = f.parse::<_, Date>(&text);
            }
        }
        25 => {
            let pic = ["YYYY-MM-DD", "HH24:MI:SS", "DD HH24:MI:SS.FF3", "MONTH DD, YYYY HH:MI AM", "YYYY-MM"][(k.unsigned_abs() % 5) as usize];
            if let Ok(f) = Formatter::try_new(pic) {
                let _ = f.format(d, &mut s);
                let _ = f.format(t, &mut s);
                let _ = f.format(ts, &mut s);
                let _ = f.format(o, &mut s);
                if let Ok(iv) = IntervalDT::try_from_usecs(k.clamp(-DT_LIM, DT_LIM)) {
                    let _ = f.format(iv, &mut s);
                }
            }
        }
        _ => {}
    }
    let _ = dim(y as i64, m);
}

/// a day related to one of the anchors (the case's own dates): the same day, a neighbour, another day of the same
/// month, the neighbouring months, December / the turn of the year around it, the same year, somewhere else
pub fn related_day(rng: &mut Rng, anchors: &[i64]) -> i64 {
    let a = if anchors.is_empty() { rng.range_i64(MIN_DAY as i64, MAX_DAY as i64) } else { *rng.pick(anchors) };
    let a = a.clamp(MIN_DAY as i64, MAX_DAY as i64);
    let (y, m, _) = cal().of(a as i32);
    let y = y as i64;
    let r = match rng.below(13) {
        0 | 1 => a,
        2 => a + rng.range_i64(-3, 3),
        3 => crate::cal::days_from_civil(y, m as i64, 1) + rng.range_i64(0, dim(y, m) as i64 - 1),
        4 => a + rng.range_i64(-35, 35),
        5 => crate::cal::days_from_civil(y, 12, 1) + rng.range_i64(0, 30),
        6 => crate::cal::days_from_civil(y - 1, 12, 1) + rng.range_i64(0, 30),
        7 => crate::cal::days_from_civil(y + 1, 1, 1) + rng.range_i64(0, 3),
        8 => crate::cal::days_from_civil(y, 1, 1) + rng.range_i64(0, 364),
        9 => crate::cal::days_from_civil(y - 1, 1, 1) + rng.range_i64(0, 364),
        10 => a + rng.range_i64(-400, 400),
        11 => crate::cal::days_from_civil(y, 1, 1) + rng.range_i64(0, 3),
        _ => rng.range_i64(MIN_DAY as i64, MAX_DAY as i64),
    };
    r.clamp(MIN_DAY as i64, MAX_DAY as i64)
}

/// draws a primer related to the case's own values: `anchors` are its dates (day numbers), `tod` its time of day,
/// `ks` numbers that occur in it (offsets, interval counts)
pub fn gen(rng: &mut Rng, anchors: &[i64], tod: i64, ks: &[i64]) -> Primer {
    let op = rng.below(N_OPS as u64) as u16;
    let mut day = related_day(rng, anchors);
    let k = match rng.below(4) {
        0 if !ks.is_empty() => *rng.pick(ks),
        1 if !ks.is_empty() => -*rng.pick(ks),
        2 => rng.range_i64(-40, 40),
        _ => rng.next() as i64 >> rng.below(50),
    };
    if (op == 14 || op == 15) && !anchors.is_empty() && rng.chance(1, 2) {
        // aim the overflow target of y-m-(d+delta) at one of the case's dates
        day = (*rng.pick(anchors) - 1 - (k.unsigned_abs() % 3) as i64).clamp(MIN_DAY as i64, MAX_DAY as i64);
    }
    let tod = match rng.below(3) {
        0 => tod.clamp(0, DAY_US - 1),
        1 => *rng.pick(&[0i64, 1, 43_200_000_000, DAY_US - 1, 43_199_999_999]),
        _ => rng.range_i64(0, DAY_US - 1),
    };
    Primer { op, day, tod, k }
}

/// one to three primers
pub fn gen_some(rng: &mut Rng, anchors: &[i64], tod: i64, ks: &[i64]) -> Vec<Primer> {
    let n = 1 + rng.below(3) as usize;
    (0..n).map(|_| gen(rng, anchors, tod, ks)).collect()
}

/// anchors (day numbers) and numbers taken from a generic (kind, a, b) case: an operand may be a day number or a
/// microsecond count
pub fn g_context(a: i64, b: i64) -> (Vec<i64>, i64, Vec<i64>) {
    let mut anchors = vec![];
    let mut tod = 0;
    for x in [a, b] {
        if (MIN_DAY as i64..=MAX_DAY as i64).contains(&x) {
            anchors.push(x);
        }
        if (TS_MIN..=TS_MAX).contains(&x) {
            anchors.push(x.div_euclid(DAY_US));
            tod = x.rem_euclid(DAY_US);
        }
    }
    (anchors, tod, vec![a, b])
}

/// Evaluates a case under one of three schedules: plainly (13/16), twice in a row (1/16: the second answer of a
/// pure function is the first one), or after one to three primers (2/16).
pub fn eval_sched<C: Case + Clone>(st: &mut Stats, rng: &mut Rng, h: u64, c: &C, anchors: &[i64], tod: i64, ks: &[i64], check: impl Fn(&mut Stats, &C)) {
    match rng.below(16) {
        0 => st.eval_hist(mix(h, 0xAA), vec![c.clone(), c.clone()], check),
        1 | 2 => {
            let pr = gen_some(rng, anchors, tod, ks);
            st.eval_primed(h, pr, c.clone(), check)
        }
        _ => st.eval_h(h, c, check),
    }
}

pub struct Primed<C: Case> {
    pub primers: Vec<Primer>,
    pub case: C,
}
impl<C: Case> Case for Primed<C> {
    fn to_json(&self) -> Value {
        json!({"kind": "primed", "primers": self.primers.iter().map(|p| p.to_json()).collect::<Vec<_>>(), "case": self.case.to_json()})
    }
}
impl Stats {
    /// runs the primers, then judges `case` with its own oracle
    pub fn eval_primed<C: Case>(&mut self, h: u64, primers: Vec<Primer>, case: C, check: impl Fn(&mut Stats, &C)) {
        self.bumpn("primer operations run before judged cases", primers.len() as u64);
        let mut hh = h;
        for p in &primers {
            hh = mix(hh, mix(p.op as u64, mix(p.day as u64, mix(p.tod as u64, p.k as u64))));
        }
        self.eval_h(hh, &Primed { primers, case }, |st, pc| {
            for p in &pc.primers {
                run(p);
            }
            check(st, &pc.case);
        });
    }
}
