//! C07 - a timestamp is exactly its (date, time-of-day) pair, before and after 1970.
use crate::cal::cal;
use crate::core::*;
use crate::kinds;
use crate::pools::*;
use serde_json::Value;
use sqldatetime::{Date, DateTime, Time, Timestamp};
use std::cmp::Ordering;
use std::collections::hash_map::DefaultHasher;
use std::hash::{Hash, Hasher};

kinds!(K { OrdM = "Ord::max/min/clamp", Cross = "date-then-timestamp-with-equal-raw-number", Pair = "date-time-pair", Tm = "time-usecs", TmOut = "time-usecs-out-of-range", Hms = "hms-tuple", OrdTs = "order-timestamps", OrdTm = "order-times" });
pub type C = G<K>;
impl Case for C {
    fn to_json(&self) -> Value {
        g_json(self.k.name(), self.a, self.b, self.c, self.f)
    }
}
fn h<T: Hash>(t: &T) -> u64 {
    let mut s = DefaultHasher::new();
    t.hash(&mut s);
    s.finish()
}
#[inline]
fn radix(us: i64) -> (u32, u32, u32, u32) {
    ((us / 3_600_000_000) as u32, (us / 60_000_000 % 60) as u32, (us / 1_000_000 % 60) as u32, (us % 1_000_000) as u32)
}
fn second_ok(x: Option<f64>, s: u32, us: u32) -> bool {
    match x {
        Some(x) => x.floor() == s as f64 && ((x - s as f64) * 1e6).round() == us as f64,
        None => false,
    }
}

pub fn check(st: &mut Stats, c: &C) {
    match c.k {
        K::OrdM => {
            // the provided methods of Ord must agree with cmp: max/min return one of the operands, clamp the value or a bound
            let (x, y, z) = (c.a, c.b, c.c);
            st.op(Op::TS_cmp);
            if (TS_MIN..=TS_MAX).contains(&x) && (TS_MIN..=TS_MAX).contains(&y) && (TS_MIN..=TS_MAX).contains(&z) {
                let (a, b, v) = (Timestamp::try_from_usecs(x).expect("ts"), Timestamp::try_from_usecs(y).expect("ts"), Timestamp::try_from_usecs(z).expect("ts"));
                let (lo, hi) = if x <= y { (a, b) } else { (b, a) };
                if a.max(b).usecs() != x.max(y) || a.min(b).usecs() != x.min(y) || std::cmp::max(a, b).usecs() != x.max(y) || v.clamp(lo, hi).usecs() != z.clamp(x.min(y), x.max(y)) {
                    st.fail("C07/order/timestamp-max-min-clamp", format!("{} {} {}", x, y, z));
                }
            }
            let (tx, ty, tz) = (x.rem_euclid(DAY_US), y.rem_euclid(DAY_US), z.rem_euclid(DAY_US));
            let (a, b, v) = (Time::try_from_usecs(tx).expect("time"), Time::try_from_usecs(ty).expect("time"), Time::try_from_usecs(tz).expect("time"));
            let (lo, hi) = if tx <= ty { (a, b) } else { (b, a) };
            st.op(Op::T_cmp);
            if a.max(b).usecs() != tx.max(ty) || a.min(b).usecs() != tx.min(ty) || v.clamp(lo, hi).usecs() != tz.clamp(tx.min(ty), tx.max(ty)) {
                st.fail("C07/order/time-max-min-clamp", format!("{} {} {}", tx, ty, tz));
            }
            let (dx, dy, dz) = (x.div_euclid(DAY_US).clamp(MIN_DAY as i64, MAX_DAY as i64) as i32, y.div_euclid(DAY_US).clamp(MIN_DAY as i64, MAX_DAY as i64) as i32, z.div_euclid(DAY_US).clamp(MIN_DAY as i64, MAX_DAY as i64) as i32);
            let (a, b, v) = (Date::try_from_days(dx).expect("date"), Date::try_from_days(dy).expect("date"), Date::try_from_days(dz).expect("date"));
            let (lo, hi) = if dx <= dy { (a, b) } else { (b, a) };
            st.op(Op::D_cmp);
            if a.max(b).days() != dx.max(dy) || a.min(b).days() != dx.min(dy) || v.clamp(lo, hi).days() != dz.clamp(dx.min(dy), dx.max(dy)) {
                st.fail("C07/order/date-max-min-clamp", format!("{} {} {}", dx, dy, dz));
            }
        }
        K::Cross => {
            // history monitor: accessors of a Date (day number n) and of a Timestamp whose microsecond count is the same
            // number n, called back to back in both orders; each must report its own fields
            let n = c.a;
            let d = Date::try_from_days(n as i32).expect("date");
            let t = Timestamp::try_from_usecs(n).expect("timestamp");
            let (dy, dm, dd) = cal().of(n as i32);
            let tn = n.div_euclid(DAY_US) as i32;
            let (ty, tm, td) = cal().of(tn);
            let (hh, mi, _, _) = radix(n.rem_euclid(DAY_US));
            for order in 0..2 {
                let (a, b) = if order == 0 {
                    let a = (d.year(), d.month(), d.day());
                    (a, (t.year(), t.month(), t.day(), t.hour(), t.minute()))
                } else {
                    let b = (t.year(), t.month(), t.day(), t.hour(), t.minute());
                    ((d.year(), d.month(), d.day()), b)
                };
                st.op(Op::D_accessors);
                st.op(Op::TS_accessors);
                if a != (Some(dy), Some(dm as i32), Some(dd as i32)) {
                    st.fail("C07/history/date-accessors-after-timestamp-accessors", format!("Date day {} reports {:?}, expected {:?} (order {})", n, a, (dy, dm, dd), order));
                }
                if b != (Some(ty), Some(tm as i32), Some(td as i32), Some(hh as i32), Some(mi as i32)) {
                    st.fail("C07/history/timestamp-accessors-after-date-accessors", format!("Timestamp {} us reports {:?}, expected {:?} (order {})", n, b, (ty, tm, td, hh, mi), order));
                }
            }
        }
        K::Pair => {
            let (n, t) = (c.a as i32, c.b);
            let (d, tm) = match (Date::try_from_days(n), Time::try_from_usecs(t)) {
                (Ok(d), Ok(tm)) => (d, tm),
                _ => return st.fail("C07/constructor-rejects-valid", format!("day {} time {}", n, t)),
            };
            st.op(Op::TS_new);
            let ts = Timestamp::new(d, tm);
            st.obs(Op::TS_new, &ts);
            let exp = n as i128 * DAY_US as i128 + t as i128;
            st.op(Op::TS_usecs);
            if ts.usecs() as i128 != exp {
                st.fail("C07/new/wrong-microsecond-count", format!("new({}, {}) = {} expected {}", n, t, ts.usecs(), exp));
            }
            st.op(Op::TS_extract);
            let (d2, t2) = ts.extract();
            st.obs(Op::TS_extract, &d2);
            st.obs(Op::TS_extract, &t2);
            if d2.days() != n || t2.usecs() != t {
                st.fail(if n < 0 { "C07/extract/not-inverse/before-epoch" } else { "C07/extract/not-inverse" }, format!("new({}, {}).extract() = ({}, {})", n, t, d2.days(), t2.usecs()));
            }
            // accessors
            let (y, m, dd) = cal().of(n);
            let (hh, mi, ss, us) = radix(t);
            st.op(Op::TS_accessors);
            let got = (ts.year(), ts.month(), ts.day(), ts.hour(), ts.minute());
            if got != (Some(y), Some(m as i32), Some(dd as i32), Some(hh as i32), Some(mi as i32)) || !second_ok(ts.second(), ss, us) {
                st.fail(if n < 0 { "C07/accessors/wrong-field/before-epoch" } else { "C07/accessors/wrong-field" },
                    format!("day {} time {}: accessors {:?} sec {:?}, expected {:?}", n, t, got, ts.second(), (y, m, dd, hh, mi, ss, us)));
            }
            match ts.date() {
                Some(x) if x.days() == n => {}
                other => st.fail("C07/accessors/date", format!("day {} time {}: date() = {:?}", n, t, other.map(|x| x.days()))),
            }
            st.op(Op::T_from_ts);
            let t3: Time = ts.into();
            st.obs(Op::T_from_ts, &t3);
            if t3.usecs() != t {
                st.fail("C07/time-from-timestamp", format!("day {} time {} -> {}", n, t, t3.usecs()));
            }
            // the date (= its own midnight) against the timestamp built from it: all six operators, both directions
            {
                use std::cmp::Ordering;
                let e = if t == 0 { Ordering::Equal } else { Ordering::Less };
                st.op(Op::D_cmp_ts);
                let fwd = d.partial_cmp(&ts) == Some(e) && (d == ts) == (e == Ordering::Equal) && (d != ts) == (e != Ordering::Equal) && (d < ts) == (e == Ordering::Less) && (d <= ts) && (d > ts) == false && (d >= ts) == (e == Ordering::Equal);
                let r = e.reverse();
                let bwd = ts.partial_cmp(&d) == Some(r) && (ts == d) == (r == Ordering::Equal) && (ts != d) == (r != Ordering::Equal) && (ts > d) == (r == Ordering::Greater) && (ts >= d) && (ts < d) == false && (ts <= d) == (r == Ordering::Equal);
                if !fwd || !bwd {
                    st.fail("C07/order/date-vs-own-timestamp", format!("day {} time {}: an operator of {} disagrees with chronological order", n, t, if !fwd { "Date op Timestamp" } else { "Timestamp op Date" }));
                }
            }
            // equivalent constructors
            st.op(Op::D_and_time);
            st.op(Op::D_add_time);
            if d.and_time(tm) != ts || d.add_time(tm) != ts {
                st.fail("C07/and_time-differs-from-new", format!("day {} time {}", n, t));
            }
            st.op(Op::D_and_hms);
            match d.and_hms(hh, mi, ss, us) {
                Ok(x) if x == ts => {}
                other => st.fail("C07/and_hms-differs-from-new", format!("day {} hms {:?} -> {:?}", n, (hh, mi, ss, us), other.map(|x| x.usecs()))),
            }
            if t == 0 {
                st.op(Op::TS_from_date);
                if Timestamp::from(d) != ts {
                    st.fail("C07/from-date-not-midnight", format!("day {}", n));
                }
            }
            // date accessors on Date agree as well
            st.op(Op::D_accessors);
            if (d.year(), d.month(), d.day(), d.hour(), d.minute(), d.second(), d.date().map(|x| x.days())) != (Some(y), Some(m as i32), Some(dd as i32), None, None, None, Some(n)) {
                st.fail("C07/date-accessors", format!("day {}", n));
            }
            st.op(Op::TS_try_from_usecs);
            match Timestamp::try_from_usecs(exp as i64) {
                Ok(x) if x == ts && h(&x) == h(&ts) => {}
                _ => st.fail("C07/try_from_usecs-differs-from-new", format!("day {} time {}", n, t)),
            }
        }
        K::Tm => {
            let us = c.a;
            st.op(Op::T_try_from_usecs);
            let tm = match Time::try_from_usecs(us) {
                Ok(t) => t,
                Err(e) => return st.fail("C07/time/try_from_usecs-rejects-valid", format!("{} -> {:?}", us, e)),
            };
            st.obs(Op::T_try_from_usecs, &tm);
            let exp = radix(us);
            st.op(Op::T_extract);
            st.op(Op::T_usecs);
            if tm.extract() != exp || tm.usecs() != us {
                st.fail("C07/time/extract-wrong", format!("{} -> {:?} expected {:?}", us, tm.extract(), exp));
            }
            st.op(Op::T_try_from_hms);
            match Time::try_from_hms(exp.0, exp.1, exp.2, exp.3) {
                Ok(t2) if t2 == tm && t2.usecs() == us && h(&t2) == h(&tm) => st.obs(Op::T_try_from_hms, &t2),
                other => st.fail("C07/time/try_from_hms-not-inverse", format!("{:?} -> {:?} expected {}", exp, other.map(|x| x.usecs()), us)),
            }
            st.op(Op::T_is_valid);
            if !Time::is_valid(exp.0, exp.1, exp.2, exp.3) {
                st.fail("C07/time/is_valid-rejects-valid", format!("{:?}", exp));
            }
            st.op(Op::T_accessors);
            if (tm.hour(), tm.minute(), tm.year(), tm.month(), tm.day(), tm.date().map(|d| d.days())) != (Some(exp.0 as i32), Some(exp.1 as i32), None, None, None, None) || !second_ok(tm.second(), exp.2, exp.3) {
                st.fail("C07/time/accessors", format!("{}: {:?} {:?} {:?}", us, tm.hour(), tm.minute(), tm.second()));
            }
        }
        K::TmOut => {
            st.op(Op::T_try_from_usecs);
            if let Ok(t) = Time::try_from_usecs(c.a) {
                st.obs(Op::T_try_from_usecs, &t);
                st.fail("C07/time/try_from_usecs-accepts-invalid", format!("{}", c.a));
            }
        }
        K::Hms => {
            let (hh, mi, ss, us) = ((c.a >> 32) as u32, c.a as u32, (c.b >> 32) as u32, c.b as u32);
            let valid = hh < 24 && mi < 60 && ss < 60 && us < 1_000_000;
            st.op(Op::T_try_from_hms);
            st.op(Op::T_is_valid);
            let r = Time::try_from_hms(hh, mi, ss, us);
            if let Ok(t) = &r {
                st.obs(Op::T_try_from_hms, t);
            }
            if r.is_ok() != valid {
                st.fail(if valid { "C07/time/try_from_hms-rejects-valid" } else { "C07/time/try_from_hms-accepts-invalid" }, format!("{:?} -> {:?}", (hh, mi, ss, us), r.map(|t| t.usecs())));
            } else if let Ok(t) = r {
                let exp = hh as i64 * 3_600_000_000 + mi as i64 * 60_000_000 + ss as i64 * 1_000_000 + us as i64;
                if t.usecs() != exp {
                    st.fail("C07/time/try_from_hms-wrong-value", format!("{:?} -> {}", (hh, mi, ss, us), t.usecs()));
                }
            }
            if Time::is_valid(hh, mi, ss, us) != valid {
                st.fail("C07/time/is_valid-disagrees", format!("{:?}", (hh, mi, ss, us)));
            }
            // Date::and_hms goes through the same validation
            st.op(Op::D_and_hms);
            let dr = Date::try_from_days(0).unwrap().and_hms(hh, mi, ss, us);
            if let Ok(t) = &dr {
                st.obs(Op::D_and_hms, t);
            }
            if dr.is_ok() != valid {
                st.fail("C07/and_hms-validity", format!("{:?}", (hh, mi, ss, us)));
            }
        }
        K::OrdTs => {
            let (a, b) = (Timestamp::try_from_usecs(c.a), Timestamp::try_from_usecs(c.b));
            let (a, b) = match (a, b) {
                (Ok(a), Ok(b)) => (a, b),
                _ => return st.fail("C07/try_from_usecs-rejects-valid", format!("{} {}", c.a, c.b)),
            };
            st.op(Op::TS_cmp);
            let exp = c.a.cmp(&c.b);
            if a.cmp(&b) != exp || a.partial_cmp(&b) != Some(exp) || (a == b) != (exp == Ordering::Equal) || (a < b) != (exp == Ordering::Less) || (a >= b) != (exp != Ordering::Less) {
                st.fail("C07/order/timestamps", format!("{} vs {}", c.a, c.b));
            }
            if exp == Ordering::Equal && h(&a) != h(&b) {
                st.fail("C07/hash/timestamps", format!("{}", c.a));
            }
        }
        K::OrdTm => {
            let (a, b) = match (Time::try_from_usecs(c.a), Time::try_from_usecs(c.b)) {
                (Ok(a), Ok(b)) => (a, b),
                _ => return st.fail("C07/time/try_from_usecs-rejects-valid", format!("{} {}", c.a, c.b)),
            };
            st.op(Op::T_cmp);
            let exp = c.a.cmp(&c.b);
            if a.cmp(&b) != exp || a.partial_cmp(&b) != Some(exp) || (a == b) != (exp == Ordering::Equal) || (a > b) != (exp == Ordering::Greater) {
                st.fail("C07/order/times", format!("{} vs {}", c.a, c.b));
            }
            if exp == Ordering::Equal && h(&a) != h(&b) {
                st.fail("C07/hash/times", format!("{}", c.a));
            }
        }
    }
}

/// cases evaluated as the first library call of a fresh thread and (leg `cold`) of a fresh process
pub fn cold_list() -> Vec<C> {
    let mut v = vec![];
    for n in [0i64, 1, -1, MIN_DAY as i64, MAX_DAY as i64, 11_016, -25_508] {
        for t in [0i64, 1, 43_200_000_000, DAY_US - 1] {
            v.push(C::ab(K::Pair, n, t));
        }
        v.push(C::ab(K::Cross, n, 0));
    }
    for t in [0i64, 1, DAY_US - 1, 43_200_000_000] {
        v.push(C::ab(K::Tm, t, 0));
    }
    v
}

pub fn run(ctx: &Ctx, st: &mut Stats) {
    cal();
    let times = time_pool();
    let nt = times.len() as i64;
    let stride = ctx.tier.pick(9973, ctx.q(3, 1), 1);
    let ndays = (N_DAYS as i64 + stride - 1) / stride;
    let times_ref = &times;
    ctx.par(st, "dates x critical-times", true, 0, ndays * nt, |st, i, _| {
        let n = MIN_DAY as i64 + (i / nt) * stride;
        st.eval(&C::ab(K::Pair, n, times_ref[(i % nt) as usize]), check);
    });
    if stride == 1 {
        st.mark_exhaustive("dates x critical-times", &format!("all 3,652,059 dates x {} critical times of day", nt));
    }
    // timestamps at powers of two counted in seconds / minutes / hours / days from the epoch (Y2038, Y2106, 1901 ...)
    st.stratum("timestamps at unit-scaled powers of two from the epoch", true);
    for x in unit_pow2() {
        for v in [x, -x] {
            for e in [0i64, 1, -1, 500_000, 999_999, -999_999] {
                let u = v.saturating_add(e);
                if (TS_MIN..=TS_MAX).contains(&u) {
                    st.eval(&C::ab(K::Pair, u.div_euclid(DAY_US), u.rem_euclid(DAY_US)), check);
                }
            }
        }
    }
    // pool dates x bit-structured times of day
    let bts = bit_times();
    let dpool = date_pool();
    let (bts_ref, dpool_ref) = (&bts, &dpool);
    let bstep = ctx.tier.pick(97, 1, 1);
    ctx.par(st, "pool dates x bit-structured times (k*2^j +-1 us from either midnight)", true, 0, (dpool.len() * bts.len()) as i64 / bstep, |st, i, _| {
        let i = i * bstep;
        let n = dpool_ref[(i as usize) / bts_ref.len()] as i64;
        let t = bts_ref[(i as usize) % bts_ref.len()];
        st.eval(&C::ab(K::Pair, n, t), check);
    });
    // ---- history monitors: the same oracles, evaluated in orders a single ascending sweep never produces
    let nh = ctx.tier.pick(300, 300_000, 3_000_000);
    ctx.par(st, "history: dates at power-of-two distances (A, A+2^k, A) and A,B,A with random B", false, 0, nh, |st, i, rng| {
        let a = rng.range_i64(MIN_DAY as i64, MAX_DAY as i64);
        let b = if i % 2 == 0 {
            let k = rng.below(22);
            let s = if rng.chance(1, 2) { 1 } else { -1 };
            a + s * (1i64 << k)
        } else {
            rng.range_i64(MIN_DAY as i64, MAX_DAY as i64)
        };
        if !(MIN_DAY as i64..=MAX_DAY as i64).contains(&b) {
            return;
        }
        let t = *rng.pick(&[0i64, 1, 43_200_000_000, DAY_US - 1]);
        st.eval_hist(mix(mix(a as u64, b as u64), t as u64), vec![C::ab(K::Pair, a, t), C::ab(K::Pair, b, t), C::ab(K::Pair, a, t)], check);
    });
    ctx.par(st, "history: other operations on related dates (primers), then the judged case; also A,A", false, 0, nh, |st, i, rng| {
        let n = rng.range_i64(MIN_DAY as i64, MAX_DAY as i64);
        let t = if rng.chance(1, 2) { rng.range_i64(0, DAY_US - 1) } else { *rng.pick(&[0i64, 1, 43_200_000_000, DAY_US - 1]) };
        let c = C::ab(K::Pair, n, t);
        if i % 8 == 0 {
            st.eval_hist(mix(c.hash(6), 0xAA), vec![c, c], check);
        } else {
            let pr = crate::primers::gen_some(rng, &[n], t, &[]);
            st.eval_primed(mix(c.hash(7), i as u64), pr, c, check);
        }
    });
    st.stratum("history: Date accessors and Timestamp accessors on numerically equal raw values", true);
    for n in date_pool().into_iter().map(|x| x as i64).chain((-3000..3000).map(|x| x * 487)).chain([0, 1, -1, 2, -2, 365, 719_162, -719_162, 2_932_896]) {
        if (MIN_DAY as i64..=MAX_DAY as i64).contains(&n) {
            st.eval(&C::ab(K::Cross, n, 0), check);
        }
    }
    cold_threads(st, "history: first call on a fresh thread", cold_list(), check);
    let nom = ctx.tier.pick(300, 600_000, 6_000_000);
    ctx.par(st, "order: Ord::max / min / clamp on timestamps, times and dates (near, far, across the epoch)", false, 0, nom, |st, _, rng| {
        let x = rng.range_i64(TS_MIN, TS_MAX);
        let mk = |rng: &mut Rng| match rng.below(5) {
            0 => rng.range_i64(TS_MIN, TS_MAX),
            1 => x + rng.range_i64(-3, 3),
            2 => x + rng.range_i64(-(1i64 << 40), 1i64 << 40),
            3 => -x,
            _ => rng.range_i64(-(1i64 << 33), 1i64 << 33),
        };
        let (y, z) = (mk(rng).clamp(TS_MIN, TS_MAX), mk(rng).clamp(TS_MIN, TS_MAX));
        let x = if rng.chance(1, 4) { rng.range_i64(-(1i64 << 33), 1i64 << 33) } else { x };
        let c = C::abc(K::OrdM, x, y, z);
        st.eval_h(c.hash(40), &c, check);
    });
    let nr = ctx.tier.pick(2_000, 2_000_000, ctx.big(40_000_000, 300_000_000));
    ctx.par(st, "dates x random-times", false, 0, nr, |st, _, rng| {
        let n = rng.range_i64(MIN_DAY as i64, MAX_DAY as i64);
        let t = rng.range_i64(0, DAY_US - 1);
        let c = C::ab(K::Pair, n, t);
        st.eval_h(c.hash(1), &c, check);
    });
    // every second of the day x boundary microseconds
    let sstride = ctx.tier.pick(997, 1, 1);
    ctx.par(st, "seconds x {0,1,999999}us", true, 0, 86_400 / sstride * 3, |st, i, _| {
        let s = (i / 3) * sstride;
        let us = [0, 1, 999_999][(i % 3) as usize];
        st.eval(&C::ab(K::Tm, s * 1_000_000 + us, 0), check);
    });
    if sstride == 1 {
        st.mark_exhaustive("seconds x {0,1,999999}us", "all 86,400 seconds x 3 boundary microsecond values");
    }
    let ustride = ctx.tier.pick(9973, 1, 1);
    ctx.par(st, "all-microseconds at seconds {0,43199,43200,86399}", true, 0, 1_000_000 / ustride * 4, |st, i, _| {
        let s = [0i64, 43_199, 43_200, 86_399][(i % 4) as usize];
        st.eval(&C::ab(K::Tm, s * 1_000_000 + (i / 4) * ustride, 0), check);
    });
    if ustride == 1 {
        st.mark_exhaustive("all-microseconds at seconds {0,43199,43200,86399}", "all 1,000,000 microsecond values at 4 seconds");
    }
    st.stratum("time/out-of-range-usecs", true);
    for v in [-1i64, -2, -DAY_US, DAY_US, DAY_US + 1, 2 * DAY_US, i64::MIN, i64::MAX, -(1 << 53), 1 << 53, i64::MIN + 1, -1_000_000] {
        st.eval(&C::ab(K::TmOut, v, 0), check);
    }
    // validity grid
    st.stratum("hms-validity-grid", true);
    let hs = [0u32, 1, 11, 12, 23, 24, 25, 100, 1 << 31, u32::MAX];
    let ms = [0u32, 1, 30, 59, 60, 61, 1 << 31, u32::MAX];
    let uss = [0u32, 1, 999_999, 1_000_000, 1_000_001, 86_400_000, 1 << 31, u32::MAX - 1, u32::MAX];
    for &hh in &hs {
        for &mi in &ms {
            for &ss in &ms {
                for &us in &uss {
                    st.eval(&C::ab(K::Hms, ((hh as i64) << 32) | mi as i64, ((ss as i64) << 32) | us as i64), check);
                }
            }
        }
    }
    st.mark_exhaustive("hms-validity-grid", "hour {0,1,11,12,23,24,25,100,2^31,MAX} x minute/second {0,1,30,59,60,61,2^31,MAX} x usec {0,1,999999,1000000,1000001,86400000,2^31,MAX-1,MAX}");
    // ordering / hashing
    let np = ctx.tier.pick(2_000, 500_000, ctx.big(5_000_000, 50_000_000));
    ctx.par(st, "order/timestamp-pairs", false, 0, np, |st, _, rng| {
        let a = rng.range_i64(TS_MIN, TS_MAX);
        let b = match rng.below(5) {
            0 => a,
            1 => (a + rng.range_i64(-2, 2)).clamp(TS_MIN, TS_MAX),
            2 => (a + rng.range_i64(-2, 2) * DAY_US).clamp(TS_MIN, TS_MAX),
            _ => rng.range_i64(TS_MIN, TS_MAX),
        };
        let c = C::ab(K::OrdTs, a, b);
        st.eval_h(c.hash(2), &c, check);
    });
    ctx.par(st, "order/time-pairs", false, 0, np, |st, _, rng| {
        let a = rng.range_i64(0, DAY_US - 1);
        let b = match rng.below(4) {
            0 => a,
            1 => (a + rng.range_i64(-2, 2)).clamp(0, DAY_US - 1),
            _ => rng.range_i64(0, DAY_US - 1),
        };
        let c = C::ab(K::OrdTm, a, b);
        st.eval_h(c.hash(3), &c, check);
    });
    st.stratum("order/pool-timestamps-sorted", true);
    let pool = ts_pool();
    for w in pool.windows(2) {
        st.eval(&C::ab(K::OrdTs, w[0], w[1]), check);
        st.eval(&C::ab(K::OrdTs, w[1], w[0]), check);
    }
}

pub fn replay(v: &Value, st: &mut Stats) -> bool {
    match K::from_name(&jstr(v, "kind")) {
        Some(k) => {
            st.eval(&C { k, a: ji64(v, "a"), b: ji64(v, "b"), c: ji64(v, "c"), f: jf64(v, "f") }, check);
            true
        }
        None => false,
    }
}
