#!/bin/bash
# Confirms seeded-defect candidates in a scratch worktree: patch applies, three builds, baseline tests green,
# demo fails with the patch and passes without. usage: confirm_mutants.sh <worker-id> <candidate dirs...>
# Writes <cand>/confirm<k>.json . Scratch worktree /tmp/confirm-<id> is removed at the end.
ID="$1"; shift
WT=/tmp/confirm-$ID
git -C /repo worktree add -q --detach "$WT" HEAD || exit 1
cp /repo/Cargo.lock "$WT"/
export CARGO_NET_OFFLINE=true
cd "$WT"
FEAT='oracle serde verif-hooks'
for C in "$@"; do
  for k in 1 2 3; do
    P="$C/mut$k.diff"; D="$C/demo$k.rs"
    [ -f "$P" ] || continue
    git checkout -q -- . ; rm -rf tests
    res() { echo "{\"patch\": \"$P\", \"applies\": $1, \"build_default\": $2, \"build_features\": $3, \"build_hooks\": $4, \"baseline_tests\": \"$5\", \"feature_tests\": \"$6\", \"demo_with_patch_fails\": $7, \"demo_without_patch_passes\": $8}" > "$C/confirm$k.json"; }
    if ! git apply "$P" 2>/dev/null; then res false null null null "" "" null null; continue; fi
    b1=false; b2=false; b3=false
    cargo build --offline -q 2>/dev/null && b1=true
    cargo build --offline -q --features "oracle serde" 2>/dev/null && b2=true
    cargo build --offline -q --features "$FEAT" 2>/dev/null && b3=true
    base=$(cargo test --offline 2>&1 | grep -E "^test result" | tr '\n' ';' | sed 's/"/ /g')
    feat=$(cargo test --offline --features "oracle serde" 2>&1 | grep -E "^test result" | tr '\n' ';' | sed 's/"/ /g')
    mkdir -p tests; cp "$D" tests/demo.rs
    if cargo test --offline --features "$FEAT" --test demo >/dev/null 2>&1; then dw=false; else dw=true; fi
    git checkout -q -- src
    if cargo test --offline --features "$FEAT" --test demo >/dev/null 2>&1; then dp=true; else dp=false; fi
    rm -rf tests
    res true $b1 $b2 $b3 "$base" "$feat" $dw $dp
  done
done
cd /; git -C /repo worktree remove --force "$WT"
