//! C02 (every produced value is in range) and C03 (no safe call panics): both are observed by monitors
//! that run inside *every* workload (range monitor / panic boundary). Their drivers therefore run the
//! other properties' workloads - which between them call every catalogued operation on boundary pools,
//! scalar extremes and generated inputs - plus hostile strata of their own, and keep only the events
//! that concern them.
use crate::core::*;
use crate::props;

const PARTS: [&str; 17] = ["C04", "C05", "C06", "C15", "C19", "C18", "C01", "C07", "C08", "C09", "C10", "C11", "C12", "C13", "C14", "C16", "C17"];

/// runs the listed drivers; findings are kept only if `keep(key)`
pub fn compose(ctx: &Ctx, st: &mut Stats, keep: &dyn Fn(&str) -> bool) {
    for p in PARTS {
        // sanitizer slices (Miri is ~1000x slower): only the drivers whose calls reach code with real memory
        // unsafety (StackVec/StackStr, from_utf8_unchecked, Lazy statics, serde). The arithmetic types are
        // integer newtypes whose only `unsafe` is an unchecked newtype constructor - nothing Miri could flag.
        if ctx.tier == Tier::San && !["C04", "C05", "C06", "C15", "C19"].contains(&p) {
            continue;
        }
        let sub = Ctx { prop: p.to_string(), light: true, ..ctx.clone() };
        let mut s = Stats::new();
        s.seq_shard = ctx.shard;
        props::run_one(&sub, &mut s);
        s.finish();
        // prefix strata with the driver they came from
        let strata = std::mem::take(&mut s.strata);
        for (k, v) in strata {
            s.strata.insert(format!("{}: {}", p, k), v);
        }
        let findings = std::mem::take(&mut s.findings);
        for (k, f) in findings {
            if keep(&k) {
                s.findings.insert(k, f);
            } else {
                s.bumpn("events_of_other_properties_ignored_here", f.count);
            }
        }
        s.samples.truncate(3);
        // hashes are per-driver sets; keep them (distinct cases of different drivers are different cases)
        st.merge(s);
    }
}

pub fn range_related(key: &str) -> bool {
    key.starts_with("range/")
        || key.starts_with("panic@")
        || key.contains("ok-although")
        || key.contains("accepts-out-of-range")
        || key.contains("accepts-invalid")
        || key.contains("out-of-range-value")
        || key.contains("accepts-non-date")
        || key.contains("constructor-accepts")
}

pub fn run(ctx: &Ctx, st: &mut Stats) {
    compose(ctx, st, &range_related);
}
