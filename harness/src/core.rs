//! Monitor infrastructure shared by all property drivers: statistics, finding
//! collection, panic boundary, range monitor, op catalogue, PRNG, parallel runner.

use serde_json::{json, Value};
use sqldatetime::{Date, IntervalDT, IntervalYM, OracleDate, Time, Timestamp};
use std::cell::RefCell;
use std::collections::{BTreeMap, HashSet};
use std::panic::{catch_unwind, AssertUnwindSafe};
use std::sync::atomic::{AtomicU64, Ordering};
use std::sync::Mutex;

// ---------------------------------------------------------------- constants (re-derived, not imported)
pub const MIN_DAY: i32 = -719_162; // 0001-01-01
pub const MAX_DAY: i32 = 2_932_896; // 9999-12-31
pub const N_DAYS: usize = 3_652_059;
pub const DAY_US: i64 = 86_400_000_000;
pub const TS_MIN: i64 = MIN_DAY as i64 * DAY_US;
pub const TS_MAX: i64 = (MAX_DAY as i64 + 1) * DAY_US - 1;
pub const ORA_MAX: i64 = (MAX_DAY as i64 + 1) * DAY_US - 1_000_000;
pub const YM_LIM: i32 = 2_136_000_000;
pub const DT_LIM: i64 = 8_640_000_000_000_000_000;

// ---------------------------------------------------------------- op catalogue
macro_rules! ops {
    ($($id:ident = $name:expr),* $(,)?) => {
        #[allow(non_camel_case_types, dead_code)]
        #[derive(Clone, Copy, Debug, PartialEq, Eq)]
        #[repr(usize)]
        pub enum Op { $($id),* , _COUNT }
        pub const OP_NAMES: &[&str] = &[$($name),*];
    };
}

ops! {
    // Date
    D_try_from_ymd = "Date::try_from_ymd", D_is_valid = "Date::is_valid", D_try_from_days = "Date::try_from_days",
    D_days = "Date::days", D_extract = "Date::extract", D_and_hms = "Date::and_hms", D_and_time = "Date::and_time",
    D_format = "Date::format", D_parse = "Date::parse", D_add_days = "Date::add_days", D_sub_days = "Date::sub_days",
    D_add_interval_ym = "Date::add_interval_ym", D_sub_interval_ym = "Date::sub_interval_ym",
    D_add_interval_dt = "Date::add_interval_dt", D_sub_interval_dt = "Date::sub_interval_dt",
    D_add_time = "Date::add_time", D_sub_time = "Date::sub_time", D_sub_date = "Date::sub_date",
    D_sub_timestamp = "Date::sub_timestamp", D_day_of_week = "Date::day_of_week", D_now = "Date::now",
    D_last_day_of_month = "Date::last_day_of_month", D_trunc = "Date::trunc_*", D_round = "Date::round_*",
    D_accessors = "Date::{year,month,day,hour,minute,second,date}", D_cmp = "Date::{eq,cmp,hash}",
    D_cmp_ts = "Date<=>Timestamp", D_cmp_ora = "Date<=>OracleDate",
    X_month_from_usize = "Month::from(usize)", X_weekday_from_usize = "WeekDay::from(usize)",
    // Time
    T_try_from_hms = "Time::try_from_hms", T_is_valid = "Time::is_valid", T_try_from_usecs = "Time::try_from_usecs",
    T_usecs = "Time::usecs", T_extract = "Time::extract", T_format = "Time::format", T_parse = "Time::parse",
    T_sub_time = "Time::sub_time", T_add_interval_dt = "Time::add_interval_dt", T_sub_interval_dt = "Time::sub_interval_dt",
    T_mul_f64 = "Time::mul_f64", T_div_f64 = "Time::div_f64", T_from_ts = "Time::from(Timestamp)",
    T_from_dt = "Time::from(IntervalDT)", T_from_ora = "Time::from(OracleDate)", T_accessors = "Time::{hour,minute,second,..}",
    T_cmp = "Time::{eq,cmp,hash}", T_cmp_dt = "Time<=>IntervalDT",
    // Timestamp
    TS_new = "Timestamp::new", TS_extract = "Timestamp::extract", TS_usecs = "Timestamp::usecs",
    TS_try_from_usecs = "Timestamp::try_from_usecs", TS_format = "Timestamp::format", TS_parse = "Timestamp::parse",
    TS_add_interval_dt = "Timestamp::add_interval_dt", TS_sub_interval_dt = "Timestamp::sub_interval_dt",
    TS_add_interval_ym = "Timestamp::add_interval_ym", TS_sub_interval_ym = "Timestamp::sub_interval_ym",
    TS_add_time = "Timestamp::add_time", TS_sub_time = "Timestamp::sub_time", TS_add_days = "Timestamp::add_days",
    TS_sub_days = "Timestamp::sub_days", TS_sub_date = "Timestamp::sub_date", TS_sub_timestamp = "Timestamp::sub_timestamp",
    TS_now = "Timestamp::now", TS_last_day_of_month = "Timestamp::last_day_of_month", TS_trunc = "Timestamp::trunc_*",
    TS_round = "Timestamp::round_*", TS_from_date = "Timestamp::from(Date)", TS_try_from_time = "Timestamp::try_from(Time)",
    TS_from_ora = "Timestamp::from(OracleDate)", TS_accessors = "Timestamp::{year,..,date}", TS_cmp = "Timestamp::{eq,cmp,hash}",
    TS_cmp_date = "Timestamp<=>Date", TS_cmp_ora = "Timestamp<=>OracleDate", TS_oracle_sub_date = "Timestamp::oracle_sub_date",
    TS_oracle_add_days = "Timestamp::oracle_add_days", TS_oracle_sub_days = "Timestamp::oracle_sub_days",
    // IntervalYM
    YM_try_from_ym = "IntervalYM::try_from_ym", YM_try_from_months = "IntervalYM::try_from_months",
    YM_is_valid_ym = "IntervalYM::is_valid_ym", YM_months = "IntervalYM::months", YM_extract = "IntervalYM::extract",
    YM_format = "IntervalYM::format", YM_parse = "IntervalYM::parse", YM_add = "IntervalYM::add_interval_ym",
    YM_sub = "IntervalYM::sub_interval_ym", YM_mul_f64 = "IntervalYM::mul_f64", YM_div_f64 = "IntervalYM::div_f64",
    YM_neg = "IntervalYM::neg", YM_accessors = "IntervalYM::{year,month,..}", YM_cmp = "IntervalYM::{eq,cmp,hash}",
    // IntervalDT
    DT_try_from_dhms = "IntervalDT::try_from_dhms", DT_try_from_usecs = "IntervalDT::try_from_usecs",
    DT_is_valid = "IntervalDT::is_valid", DT_usecs = "IntervalDT::usecs", DT_extract = "IntervalDT::extract",
    DT_format = "IntervalDT::format", DT_parse = "IntervalDT::parse", DT_add = "IntervalDT::add_interval_dt",
    DT_sub = "IntervalDT::sub_interval_dt", DT_mul_f64 = "IntervalDT::mul_f64", DT_div_f64 = "IntervalDT::div_f64",
    DT_sub_time = "IntervalDT::sub_time", DT_neg = "IntervalDT::neg", DT_from_time = "IntervalDT::from(Time)",
    DT_accessors = "IntervalDT::{day,hour,minute,second,..}", DT_cmp = "IntervalDT::{eq,cmp,hash}", DT_cmp_time = "IntervalDT<=>Time",
    // OracleDate
    O_new = "OracleDate::new", O_usecs = "OracleDate::usecs", O_extract = "OracleDate::extract",
    O_try_from_usecs = "OracleDate::try_from_usecs", O_format = "OracleDate::format", O_parse = "OracleDate::parse",
    O_add_interval_dt = "OracleDate::add_interval_dt", O_sub_interval_dt = "OracleDate::sub_interval_dt",
    O_add_interval_ym = "OracleDate::add_interval_ym", O_sub_interval_ym = "OracleDate::sub_interval_ym",
    O_add_time = "OracleDate::add_time", O_sub_time = "OracleDate::sub_time", O_add_days = "OracleDate::add_days",
    O_sub_days = "OracleDate::sub_days", O_sub_date = "OracleDate::sub_date", O_sub_timestamp = "OracleDate::sub_timestamp",
    O_now = "OracleDate::now", O_last_day_of_month = "OracleDate::last_day_of_month", O_trunc = "OracleDate::trunc_*",
    O_round = "OracleDate::round_*", O_from_ts = "OracleDate::from(Timestamp)", O_try_from_time = "OracleDate::try_from(Time)",
    O_accessors = "OracleDate::{year,..,date}", O_cmp = "OracleDate::{eq,cmp,hash}", O_cmp_ts = "OracleDate<=>Timestamp",
    O_cmp_date = "OracleDate<=>Date",
    // Formatter + serde
    F_try_new = "Formatter::try_new", F_format = "Formatter::format", F_parse = "Formatter::parse",
    S_json_ser = "serde_json::to_string", S_json_de = "serde_json::from_str", S_bin_ser = "bincode::serialize",
    S_bin_de = "bincode::deserialize",
}

// ---------------------------------------------------------------- PRNG (splitmix64 / xorshift)
#[derive(Clone)]
pub struct Rng(pub u64);
impl Rng {
    pub fn new(seed: u64) -> Rng {
        let mut r = Rng(seed.wrapping_mul(0x9E37_79B9_7F4A_7C15) ^ 0xD1B5_4A32_D192_ED03);
        r.next();
        r
    }
    #[inline]
    pub fn next(&mut self) -> u64 {
        // splitmix64
        self.0 = self.0.wrapping_add(0x9E37_79B9_7F4A_7C15);
        let mut z = self.0;
        z = (z ^ (z >> 30)).wrapping_mul(0xBF58_476D_1CE4_E5B9);
        z = (z ^ (z >> 27)).wrapping_mul(0x94D0_49BB_1331_11EB);
        z ^ (z >> 31)
    }
    #[inline]
    pub fn below(&mut self, n: u64) -> u64 {
        if n == 0 {
            0
        } else {
            self.next() % n
        }
    }
    #[inline]
    pub fn range_i64(&mut self, lo: i64, hi: i64) -> i64 {
        // inclusive
        let span = (hi as i128 - lo as i128 + 1) as u128;
        (lo as i128 + (((self.next() as u128) << 64 | self.next() as u128) % span) as i128) as i64
    }
    #[inline]
    pub fn chance(&mut self, num: u64, den: u64) -> bool {
        self.below(den) < num
    }
    pub fn pick<'a, T>(&mut self, xs: &'a [T]) -> &'a T {
        &xs[self.below(xs.len() as u64) as usize]
    }
}

#[inline]
pub fn hash64(bytes: &[u8]) -> u64 {
    // FNV-1a 64 with a final avalanche
    let mut h: u64 = 0xcbf2_9ce4_8422_2325;
    for b in bytes {
        h ^= *b as u64;
        h = h.wrapping_mul(0x0000_0100_0000_01B3);
    }
    h ^= h >> 32;
    h.wrapping_mul(0x9E37_79B9_7F4A_7C15)
}
#[inline]
pub fn mix(a: u64, b: u64) -> u64 {
    let mut z = a ^ b.wrapping_mul(0x9E37_79B9_7F4A_7C15).rotate_left(29);
    z = (z ^ (z >> 30)).wrapping_mul(0xBF58_476D_1CE4_E5B9);
    z ^ (z >> 27)
}

// ---------------------------------------------------------------- panic boundary
thread_local! {
    static LAST_PANIC: RefCell<Option<String>> = RefCell::new(None);
    static IN_GUARD: std::cell::Cell<bool> = std::cell::Cell::new(false);
}
pub static PANICS_SEEN: AtomicU64 = AtomicU64::new(0);
/// panic messages recorded while the thread's own thread-locals are already gone (calls made from thread-exit destructors)
static LATE_PANIC: std::sync::Mutex<Option<String>> = std::sync::Mutex::new(None);

pub fn install_panic_hook() {
    std::panic::set_hook(Box::new(|info| {
        let loc = info
            .location()
            .map(|l| {
                let f = l.file();
                // keep only the path inside the crate
                let f = f.rsplit_once("/src/").map(|(_, b)| b).unwrap_or(f);
                format!("{}:{}", f, l.line())
            })
            .unwrap_or_else(|| "?".into());
        let msg = if let Some(s) = info.payload().downcast_ref::<&str>() {
            s.to_string()
        } else if let Some(s) = info.payload().downcast_ref::<String>() {
            s.clone()
        } else {
            "<non-string payload>".into()
        };
        PANICS_SEEN.fetch_add(1, Ordering::Relaxed);
        if !IN_GUARD.try_with(|g| g.get()).unwrap_or(true) {
            // a panic outside the monitored boundary is a harness error: make it visible
            eprintln!("HARNESS PANIC (outside the panic boundary) at {}: {}", loc, msg);
        }
        let text = format!("{} | {}", loc, msg);
        if LAST_PANIC.try_with(|p| *p.borrow_mut() = Some(text.clone())).is_err() {
            if let Ok(mut g) = LATE_PANIC.lock() {
                *g = Some(text);
            }
        }
    }));
}

pub fn take_panic() -> String {
    LAST_PANIC
        .try_with(|p| p.borrow_mut().take())
        .ok()
        .flatten()
        .or_else(|| LATE_PANIC.lock().ok().and_then(|mut g| g.take()))
        .unwrap_or_else(|| "? | ?".into())
}

/// Runs `f`, converting a panic into `Err("file:line | message")`.
#[inline]
pub fn guard<R>(f: impl FnOnce() -> R) -> Result<R, String> {
    let prev = IN_GUARD.try_with(|g| g.replace(true)).unwrap_or(true);
    let r = catch_unwind(AssertUnwindSafe(f));
    let _ = IN_GUARD.try_with(|g| g.set(prev));
    match r {
        Ok(r) => Ok(r),
        Err(_) => Err(take_panic()),
    }
}

// ---------------------------------------------------------------- findings / stats
#[derive(Clone, Debug)]
pub struct Finding {
    pub key: String,
    pub count: u64,
    pub detail: String,
    pub case: Value,
}

#[derive(Clone, Debug, Default)]
pub struct Stratum {
    pub evals: u64,
    pub distinct: u64,
    pub exhaustive: bool,
    pub note: String,
}

pub const DISTINCT_CAP: usize = 4_000_000;

pub struct Stats {
    pub evals: u64,
    pub skipped: u64,
    pub unspecified: u64,
    pub ops: Vec<u64>,
    pub findings: BTreeMap<String, Finding>,
    pub samples: Vec<Value>,
    pub strata: BTreeMap<String, Stratum>,
    pub range_obs: [u64; 6],
    pub hashes: HashSet<u64>,
    pub hash_overflow: u64,
    pub cur: String,
    pub cur_evals: u64,
    pub cur_enumerated: bool,
    pub pending: Vec<(String, String)>,
    pub panics: u64,
    pub extra: BTreeMap<String, u64>,
    pub inconclusive: Vec<String>,
    pub sample_limit: usize,
    /// sharding of *sequential* strata (parallel strata are sharded by index in `Ctx::par`)
    pub seq_shard: (u64, u64),
    pub seq: u64,
}

impl Stats {
    pub fn new() -> Stats {
        Stats {
            evals: 0,
            skipped: 0,
            unspecified: 0,
            ops: vec![0; Op::_COUNT as usize],
            findings: BTreeMap::new(),
            samples: vec![],
            strata: BTreeMap::new(),
            range_obs: [0; 6],
            hashes: HashSet::new(),
            hash_overflow: 0,
            cur: String::new(),
            cur_evals: 0,
            cur_enumerated: true,
            pending: vec![],
            panics: 0,
            extra: BTreeMap::new(),
            inconclusive: vec![],
            sample_limit: 40,
            seq_shard: (0, 1),
            seq: 0,
        }
    }

    /// Opens a stratum. `enumerated` = cases are distinct by construction (an enumeration index
    /// identifies them); otherwise every case must supply a hash through `eval_h`.
    pub fn stratum(&mut self, name: &str, enumerated: bool) {
        self.flush_stratum();
        self.cur = name.to_string();
        self.cur_evals = 0;
        self.cur_enumerated = enumerated;
    }
    fn flush_stratum(&mut self) {
        if !self.cur.is_empty() && self.cur_evals > 0 {
            let e = self.strata.entry(self.cur.clone()).or_default();
            e.evals += self.cur_evals;
            if self.cur_enumerated {
                e.distinct += self.cur_evals;
            }
        }
        self.cur_evals = 0;
    }
    pub fn mark_exhaustive(&mut self, name: &str, note: &str) {
        let e = self.strata.entry(name.to_string()).or_default();
        e.exhaustive = true;
        e.note = note.to_string();
    }
    #[inline]
    pub fn op(&mut self, op: Op) {
        self.ops[op as usize] += 1;
    }
    #[inline]
    pub fn opn(&mut self, op: Op, n: u64) {
        self.ops[op as usize] += n;
    }
    #[inline]
    pub fn fail(&mut self, key: impl Into<String>, detail: impl Into<String>) {
        self.pending.push((key.into(), detail.into()));
    }
    #[inline]
    pub fn bump(&mut self, name: &str) {
        *self.extra.entry(name.to_string()).or_insert(0) += 1;
    }
    #[inline]
    pub fn bumpn(&mut self, name: &str, n: u64) {
        *self.extra.entry(name.to_string()).or_insert(0) += n;
    }

    /// Evaluates one case through `f` inside the panic boundary.
    #[inline]
    pub fn eval<C: Case>(&mut self, c: &C, f: impl FnOnce(&mut Stats, &C)) {
        self.eval_opt(c, f, true)
    }
    /// Sequential sharding: would the next `eval` be evaluated by this shard? (lets a workload skip building an
    /// expensive case it will not evaluate; pair with `skip_one`)
    #[inline]
    pub fn next_is_mine(&self) -> bool {
        self.seq_shard.1 <= 1 || (self.seq + 1) % self.seq_shard.1 == self.seq_shard.0
    }
    /// advances the sequential-sharding counter exactly as a skipped `eval` would
    #[inline]
    pub fn skip_one(&mut self) {
        if self.seq_shard.1 > 1 {
            self.seq += 1;
        }
    }
    /// like `eval`, but never skipped by sequential sharding (set-up work every shard needs, e.g. compiling a picture)
    #[inline]
    pub fn eval_unsharded<C: Case>(&mut self, c: &C, f: impl FnOnce(&mut Stats, &C)) {
        self.eval_opt(c, f, false)
    }
    #[inline]
    fn eval_opt<C: Case>(&mut self, c: &C, f: impl FnOnce(&mut Stats, &C), sharded: bool) {
        if sharded && self.seq_shard.1 > 1 {
            self.seq += 1;
            if self.seq % self.seq_shard.1 != self.seq_shard.0 {
                return;
            }
        }
        self.evals += 1;
        self.cur_evals += 1;
        let prev = IN_GUARD.try_with(|g| g.replace(true)).unwrap_or(true);
        let r = catch_unwind(AssertUnwindSafe(|| f(self, c)));
        let _ = IN_GUARD.try_with(|g| g.set(prev));
        if r.is_err() {
            let p = take_panic();
            self.panics += 1;
            let loc = p.split(" | ").next().unwrap_or("?").to_string();
            self.pending.push((format!("panic@{}", loc), p));
        }
        if !self.pending.is_empty() {
            self.commit_pending(c);
        }
        let n = self.cur_evals;
        if (n == 1 || n == 7 || n == 1000 || n == 100_003 || n == 10_000_019) && self.samples.len() < self.sample_limit {
            self.samples.push(json!({"stratum": self.cur, "case": c.to_json()}));
        }
    }
    /// Same, for generated (non-enumerated) cases: `h` identifies the case for distinct counting.
    #[inline]
    pub fn eval_h<C: Case>(&mut self, h: u64, c: &C, f: impl FnOnce(&mut Stats, &C)) {
        if self.hashes.len() < DISTINCT_CAP {
            if self.hashes.insert(mix(h, hash64(self.cur.as_bytes()))) {
                // counted at merge time from the set size
            }
        } else {
            self.hash_overflow += 1;
        }
        self.eval(c, f)
    }
    #[cold]
    fn commit_pending<C: Case>(&mut self, c: &C) {
        let pend = std::mem::take(&mut self.pending);
        for (key, detail) in pend {
            let cur = self.cur.clone();
            let e = self.findings.entry(key.clone()).or_insert_with(|| Finding {
                key,
                count: 0,
                detail: format!("[{}] {}", cur, detail),
                case: c.to_json(),
            });
            e.count += 1;
        }
    }

    pub fn finish(&mut self) {
        self.flush_stratum();
        self.cur.clear();
    }

    pub fn merge(&mut self, mut o: Stats) {
        o.finish();
        self.evals += o.evals;
        self.skipped += o.skipped;
        self.unspecified += o.unspecified;
        for (a, b) in self.ops.iter_mut().zip(o.ops.iter()) {
            *a += *b;
        }
        for (k, f) in o.findings {
            match self.findings.get_mut(&k) {
                Some(e) => e.count += f.count,
                None => {
                    self.findings.insert(k, f);
                }
            }
        }
        for s in o.samples {
            if self.samples.len() < self.sample_limit {
                self.samples.push(s);
            }
        }
        for (k, s) in o.strata {
            let e = self.strata.entry(k).or_default();
            e.evals += s.evals;
            e.distinct += s.distinct;
            e.exhaustive |= s.exhaustive;
            if e.note.is_empty() {
                e.note = s.note;
            }
        }
        for i in 0..6 {
            self.range_obs[i] += o.range_obs[i];
        }
        for h in o.hashes {
            if self.hashes.len() < DISTINCT_CAP * 4 {
                self.hashes.insert(h);
            } else {
                self.hash_overflow += 1;
            }
        }
        self.hash_overflow += o.hash_overflow;
        self.panics += o.panics;
        for (k, v) in o.extra {
            *self.extra.entry(k).or_insert(0) += v;
        }
        self.inconclusive.extend(o.inconclusive);
    }

    /// distinct non-trivial cases: enumerated strata count by construction, generated ones by hash set.
    pub fn distinct_nontrivial(&self) -> u64 {
        let enumerated: u64 = self.strata.values().map(|s| s.distinct).sum();
        enumerated + self.hashes.len() as u64
    }

    pub fn to_json(&self, prop: &str, tier: &str, seed: u64, profile: &str, wall: f64) -> Value {
        let ops: BTreeMap<&str, u64> = self
            .ops
            .iter()
            .enumerate()
            .filter(|(_, n)| **n > 0)
            .map(|(i, n)| (OP_NAMES[i], *n))
            .collect();
        let findings: Vec<Value> = self
            .findings
            .values()
            .map(|f| json!({"key": f.key, "count": f.count, "detail": f.detail, "case": f.case}))
            .collect();
        let strata: BTreeMap<&str, Value> = self
            .strata
            .iter()
            .map(|(k, s)| {
                (
                    k.as_str(),
                    json!({"evaluations": s.evals, "enumerated_distinct": s.distinct, "exhaustive": s.exhaustive, "note": s.note}),
                )
            })
            .collect();
        json!({
            "property": prop, "tier": tier, "seed": seed, "profile": profile, "wall_s": wall,
            "evaluations": self.evals,
            "distinct_nontrivial": self.distinct_nontrivial(),
            "generated_distinct": self.hashes.len(),
            "distinct_cap_overflow": self.hash_overflow,
            "skipped": self.skipped, "unspecified": self.unspecified,
            "per_op_calls": ops,
            "range_monitor": {"Date": self.range_obs[0], "Time": self.range_obs[1], "Timestamp": self.range_obs[2],
                              "IntervalYM": self.range_obs[3], "IntervalDT": self.range_obs[4], "OracleDate": self.range_obs[5]},
            "panics": self.panics,
            "findings": findings,
            "samples": self.samples,
            "strata": strata,
            "extra": self.extra,
            "inconclusive": self.inconclusive,
        })
    }
}

pub trait Case {
    fn to_json(&self) -> Value;
}

/// a picture on its own (used when compiling one is itself the monitored call)
pub struct PicCase<'a>(pub &'a str);
impl<'a> Case for PicCase<'a> {
    fn to_json(&self) -> Value {
        json!({"kind": "picture", "picture": self.0, "len": self.0.len()})
    }
}

/// Compiles a picture inside the panic boundary. A panic becomes a finding; a rejection is reported under
/// `reject_key` when given (the caller knows the picture is a documented one).
pub fn compile_picture(st: &mut Stats, pic: &str, reject_key: Option<&str>) -> Option<sqldatetime::Formatter> {
    let mut out = None;
    st.eval_unsharded(&PicCase(pic), |st, c| {
        st.op(Op::F_try_new);
        match sqldatetime::Formatter::try_new(c.0) {
            Ok(f) => out = Some(f),
            Err(e) => {
                if let Some(k) = reject_key {
                    st.fail(k, format!("documented picture {:?} rejected: {:?}", c.0, e));
                }
            }
        }
    });
    out
}

// ---------------------------------------------------------------- range monitor
pub trait Ranged {
    const TY: usize;
    const NAME: &'static str;
    fn in_range(&self) -> bool;
    fn raw(&self) -> i64;
}
impl Ranged for Date {
    const TY: usize = 0;
    const NAME: &'static str = "Date";
    #[inline]
    fn in_range(&self) -> bool {
        (MIN_DAY..=MAX_DAY).contains(&self.days())
    }
    fn raw(&self) -> i64 {
        self.days() as i64
    }
}
impl Ranged for Time {
    const TY: usize = 1;
    const NAME: &'static str = "Time";
    #[inline]
    fn in_range(&self) -> bool {
        (0..DAY_US).contains(&self.usecs())
    }
    fn raw(&self) -> i64 {
        self.usecs()
    }
}
impl Ranged for Timestamp {
    const TY: usize = 2;
    const NAME: &'static str = "Timestamp";
    #[inline]
    fn in_range(&self) -> bool {
        (TS_MIN..=TS_MAX).contains(&self.usecs())
    }
    fn raw(&self) -> i64 {
        self.usecs()
    }
}
impl Ranged for IntervalYM {
    const TY: usize = 3;
    const NAME: &'static str = "IntervalYM";
    #[inline]
    fn in_range(&self) -> bool {
        (-YM_LIM..=YM_LIM).contains(&self.months())
    }
    fn raw(&self) -> i64 {
        self.months() as i64
    }
}
impl Ranged for IntervalDT {
    const TY: usize = 4;
    const NAME: &'static str = "IntervalDT";
    #[inline]
    fn in_range(&self) -> bool {
        (-DT_LIM..=DT_LIM).contains(&self.usecs())
    }
    fn raw(&self) -> i64 {
        self.usecs()
    }
}
impl Ranged for OracleDate {
    const TY: usize = 5;
    const NAME: &'static str = "OracleDate";
    #[inline]
    fn in_range(&self) -> bool {
        (TS_MIN..=ORA_MAX).contains(&self.usecs()) && self.usecs().rem_euclid(1_000_000) == 0
    }
    fn raw(&self) -> i64 {
        self.usecs()
    }
}

impl Stats {
    /// Range monitor: every value the library hands out passes through here.
    #[inline]
    pub fn obs<T: Ranged>(&mut self, op: Op, v: &T) {
        self.range_obs[T::TY] += 1;
        if !v.in_range() {
            self.range_fail::<T>(op, v.raw());
        }
    }
    #[cold]
    fn range_fail<T: Ranged>(&mut self, op: Op, raw: i64) {
        self.fail(
            format!("range/{}/{}", T::NAME, OP_NAMES[op as usize]),
            format!("{} returned out-of-range {} raw={}", OP_NAMES[op as usize], T::NAME, raw),
        );
    }
    #[inline]
    pub fn obs_r<T: Ranged, E>(&mut self, op: Op, r: &Result<T, E>) {
        if let Ok(v) = r {
            self.obs(op, v)
        }
    }
}

// ---------------------------------------------------------------- run context + parallel runner
#[derive(Clone)]
pub struct Ctx {
    pub prop: String,
    pub tier: Tier,
    pub seed: u64,
    pub threads: usize,
    pub profile: String,
    /// (index, count): sanitizer legs split enumerations over several processes
    pub shard: (u64, u64),
    /// set when the driver runs as part of the composed C02/C03 workloads in the quick tier: coarser strides
    pub light: bool,
}
#[derive(Clone, Copy, PartialEq, Eq, Debug)]
pub enum Tier {
    San, // tiny slice for sanitizer legs (Miri / valgrind)
    Quick,
    Thorough,
}
impl Tier {
    pub fn name(self) -> &'static str {
        match self {
            Tier::San => "san",
            Tier::Quick => "quick",
            Tier::Thorough => "thorough",
        }
    }
    /// picks by tier
    pub fn pick<T>(self, san: T, quick: T, thorough: T) -> T {
        match self {
            Tier::San => san,
            Tier::Quick => quick,
            Tier::Thorough => thorough,
        }
    }
}

impl Ctx {
    /// quick-tier stride: `light` when composed into C02/C03, `normal` when the driver runs for its own property
    pub fn q(&self, light: i64, normal: i64) -> i64 {
        if self.light {
            light
        } else {
            normal
        }
    }
    /// thorough-tier count: `light` when composed into C02/C03, `normal` for the property's own run
    pub fn big(&self, light: i64, normal: i64) -> i64 {
        if self.light {
            light
        } else {
            normal
        }
    }
    /// for sequential loops: is item `k` part of this shard?
    #[inline]
    pub fn mine(&self, k: u64) -> bool {
        self.shard.1 <= 1 || k % self.shard.1 == self.shard.0
    }
    /// Runs `body(stats, index, rng)` for every index in `lo..hi`, spread over the worker threads in
    /// chunks. All per-thread statistics are merged into `into`. The per-chunk PRNG is derived from
    /// (seed, stratum, chunk) so results do not depend on scheduling.
    pub fn par<F>(&self, into: &mut Stats, stratum: &str, enumerated: bool, lo: i64, hi: i64, body: F)
    where
        F: Fn(&mut Stats, i64, &mut Rng) + Sync,
    {
        if hi <= lo {
            return;
        }
        let total = (hi - lo) as u64;
        let nthreads = self.threads.max(1);
        let chunk = ((total / (nthreads as u64 * 8)).max(1)).min(1 << 20) as i64;
        let next = AtomicU64::new(0);
        let nchunks = ((total as i64 + chunk - 1) / chunk) as u64;
        let sink = Mutex::new(Vec::new());
        let sh = hash64(stratum.as_bytes());
        std::thread::scope(|sc| {
            for _ in 0..nthreads {
                sc.spawn(|| {
                    let mut st = Stats::new();
                    st.sample_limit = 6;
                    st.stratum(stratum, enumerated);
                    loop {
                        let c = next.fetch_add(1, Ordering::Relaxed);
                        if c >= nchunks {
                            break;
                        }
                        let a = lo + c as i64 * chunk;
                        let b = (a + chunk).min(hi);
                        let mut rng = Rng::new(mix(mix(self.seed, sh), c));
                        for i in a..b {
                            if self.shard.1 > 1 && (i - lo) as u64 % self.shard.1 != self.shard.0 {
                                continue;
                            }
                            body(&mut st, i, &mut rng);
                        }
                    }
                    st.finish();
                    sink.lock().unwrap().push(st);
                });
            }
        });
        for st in sink.into_inner().unwrap() {
            into.merge(st);
        }
    }
}

/// A short call history evaluated (and replayed) as one case: the steps run back to back on one thread.
pub struct Hist<C: Case>(pub Vec<C>);
impl<C: Case> Case for Hist<C> {
    fn to_json(&self) -> Value {
        json!({"kind": "history", "steps": self.0.iter().map(|c| c.to_json()).collect::<Vec<_>>()})
    }
}
impl Stats {
    pub fn eval_hist<C: Case>(&mut self, h: u64, steps: Vec<C>, check: impl Fn(&mut Stats, &C)) {
        self.bumpn("history steps", steps.len() as u64);
        self.eval_h(h, &Hist(steps), |st, hist| {
            for c in &hist.0 {
                check(st, c);
            }
        });
    }
}

/// History monitor, cold start: every case is evaluated as the *first* library call of a freshly spawned thread
/// (thread-local caches / memos are in their initial state there). Pure functions must not care.
pub fn cold_threads<C, F>(st: &mut Stats, stratum: &str, cases: Vec<C>, check: F)
where
    C: Case + Send + 'static,
    F: Fn(&mut Stats, &C) + Send + Sync + Copy + 'static,
{
    st.stratum(stratum, true);
    let name = stratum.to_string();
    let shard = st.seq_shard;
    for (k, c) in cases.into_iter().enumerate() {
        if shard.1 > 1 && k as u64 % shard.1 != shard.0 {
            continue;
        }
        let nm = name.clone();
        let h = std::thread::spawn(move || {
            let mut s = Stats::new();
            s.sample_limit = 1;
            s.stratum(&nm, true);
            s.eval(&c, check);
            s.finish();
            s
        });
        match h.join() {
            Ok(s) => st.merge(s),
            Err(_) => st.inconclusive.push(format!("a cold-start thread of stratum {:?} died", name)),
        }
    }
    st.stratum(stratum, true);
}

/// History monitor, thread teardown: every case is evaluated inside the destructor of a thread-local value that was
/// registered *before* the thread's first library call - so it runs after any thread-local state the library may own
/// has been destroyed (a per-thread logger flushing at thread exit is the realistic caller). One warm-up evaluation of
/// the same case runs first, in the ordinary part of the thread's life.
pub fn teardown_threads<C, F>(st: &mut Stats, stratum: &str, cases: Vec<C>, check: F)
where
    C: Case + Clone + Send + 'static,
    F: Fn(&mut Stats, &C) + Send + Sync + Copy + 'static,
{
    use std::cell::RefCell;
    use std::sync::{Arc, Mutex};
    struct Guard(Option<Box<dyn FnOnce() + Send>>);
    impl Drop for Guard {
        fn drop(&mut self) {
            if let Some(f) = self.0.take() {
                f();
            }
        }
    }
    thread_local! {
        static AT_EXIT: RefCell<Option<Guard>> = RefCell::new(None);
    }
    st.stratum(stratum, true);
    let name = stratum.to_string();
    let shard = st.seq_shard;
    for (k, c) in cases.into_iter().enumerate() {
        if shard.1 > 1 && k as u64 % shard.1 != shard.0 {
            continue;
        }
        let out: Arc<Mutex<Option<Stats>>> = Arc::new(Mutex::new(None));
        let out2 = out.clone();
        let nm = name.clone();
        let h = std::thread::spawn(move || {
            let c2 = c.clone();
            let nm2 = nm.clone();
            // registered first => destroyed last
            AT_EXIT.with(|g| {
                *g.borrow_mut() = Some(Guard(Some(Box::new(move || {
                    let mut s = Stats::new();
                    s.sample_limit = 1;
                    s.stratum(&nm2, true);
                    s.eval(&c2, check);
                    s.finish();
                    *out2.lock().unwrap() = Some(s);
                }))));
            });
            // the ordinary part of the thread's life: the same case once (creates whatever per-thread state exists)
            let mut warm = Stats::new();
            warm.sample_limit = 0;
            warm.stratum(&nm, true);
            warm.eval(&c, check);
            warm.finish();
            warm
        });
        match h.join() {
            Ok(w) => {
                st.merge(w);
                match out.lock().unwrap().take() {
                    Some(s) => st.merge(s),
                    None => st.inconclusive.push(format!("the thread-exit evaluation of stratum {:?} produced no result", name)),
                }
            }
            Err(_) => st.inconclusive.push(format!("a teardown thread of stratum {:?} died", name)),
        }
    }
    st.stratum(stratum, true);
}

pub fn jstr(v: &Value, k: &str) -> String {
    v.get(k).and_then(|x| x.as_str()).unwrap_or("").to_string()
}
pub fn ji64(v: &Value, k: &str) -> i64 {
    v.get(k).and_then(|x| x.as_i64()).unwrap_or(0)
}
pub fn jf64(v: &Value, k: &str) -> f64 {
    // f64 operands are stored as bit patterns (string) to survive NaN/inf
    match v.get(k) {
        Some(Value::String(s)) => f64::from_bits(u64::from_str_radix(s.trim_start_matches("0x"), 16).unwrap_or(0)),
        Some(x) => x.as_f64().unwrap_or(0.0),
        None => 0.0,
    }
}
pub fn f64j(x: f64) -> Value {
    json!(format!("0x{:016x}", x.to_bits()))
}
