//! R-CAL: proleptic Gregorian calendar reference, independent of the library.
//! A table built by *iteration* over (y,m,d) plus Hinnant's closed forms, cross-checked at start-up.

use crate::core::{MAX_DAY, MIN_DAY, N_DAYS};
use std::sync::OnceLock;

#[inline]
pub fn leap(y: i64) -> bool {
    y.rem_euclid(4) == 0 && (y.rem_euclid(100) != 0 || y.rem_euclid(400) == 0)
}
#[inline]
pub fn dim(y: i64, m: u32) -> u32 {
    match m {
        1 | 3 | 5 | 7 | 8 | 10 | 12 => 31,
        4 | 6 | 9 | 11 => 30,
        2 => {
            if leap(y) {
                29
            } else {
                28
            }
        }
        _ => 0,
    }
}
/// day of year, 1-based
pub fn doy(y: i64, m: u32, d: u32) -> u32 {
    (1..m).map(|k| dim(y, k)).sum::<u32>() + d
}
/// (month, day) from year + day-of-year (1-based); None if out of the year
pub fn from_doy(y: i64, n: u32) -> Option<(u32, u32)> {
    if n == 0 {
        return None;
    }
    let mut rest = n;
    for m in 1..=12 {
        let l = dim(y, m);
        if rest <= l {
            return Some((m, rest));
        }
        rest -= l;
    }
    None
}

/// Hinnant days_from_civil: days since 1970-01-01, valid for any proleptic year.
pub fn days_from_civil(y: i64, m: i64, d: i64) -> i64 {
    let yy = if m <= 2 { y - 1 } else { y };
    let era = yy.div_euclid(400);
    let yoe = yy - era * 400;
    let mp = if m > 2 { m - 3 } else { m + 9 };
    let doy = (153 * mp + 2) / 5 + d - 1;
    let doe = yoe * 365 + yoe / 4 - yoe / 100 + doy;
    era * 146_097 + doe - 719_468
}
/// Hinnant civil_from_days.
pub fn civil_from_days(z: i64) -> (i64, u32, u32) {
    let z = z + 719_468;
    let era = z.div_euclid(146_097);
    let doe = z - era * 146_097;
    let yoe = (doe - doe / 1460 + doe / 36_524 - doe / 146_096) / 365;
    let y = yoe + era * 400;
    let doy = doe - (365 * yoe + yoe / 4 - yoe / 100);
    let mp = (5 * doy + 2) / 153;
    let d = (doy - (153 * mp + 2) / 5 + 1) as u32;
    let m = if mp < 10 { mp + 3 } else { mp - 9 } as u32;
    (if m <= 2 { y + 1 } else { y }, m, d)
}

/// weekday with 0 = Sunday .. 6 = Saturday; 1970-01-01 (day 0) is a Thursday (4).
#[inline]
pub fn weekday_sun0(n: i64) -> u32 {
    (n + 4).rem_euclid(7) as u32
}
/// weekday with 0 = Monday .. 6 = Sunday
#[inline]
pub fn weekday_mon0(n: i64) -> u32 {
    (n + 3).rem_euclid(7) as u32
}

pub struct Cal {
    pub ymd: Vec<(i16, u8, u8)>,
}

impl Cal {
    fn build() -> Cal {
        let mut v = Vec::with_capacity(N_DAYS);
        let (mut y, mut m, mut d) = (1i64, 1u32, 1u32);
        loop {
            v.push((y as i16, m as u8, d as u8));
            d += 1;
            if d > dim(y, m) {
                d = 1;
                m += 1;
                if m > 12 {
                    m = 1;
                    y += 1;
                    if y > 9999 {
                        break;
                    }
                }
            }
        }
        assert_eq!(v.len(), N_DAYS, "R-CAL: iteration produced a wrong number of days");
        let c = Cal { ymd: v };
        // cross-check the two independent models against each other on every day
        for (i, &(y, m, d)) in c.ymd.iter().enumerate() {
            let n = MIN_DAY as i64 + i as i64;
            assert_eq!(days_from_civil(y as i64, m as i64, d as i64), n, "R-CAL self-check (dfc) at index {}", i);
            assert_eq!(civil_from_days(n), (y as i64, m as u32, d as u32), "R-CAL self-check (cfd) at {}", n);
        }
        // anchors known from the outside world
        assert_eq!(c.of(0), (1970, 1, 1));
        assert_eq!(c.of(MIN_DAY), (1, 1, 1));
        assert_eq!(c.of(MAX_DAY), (9999, 12, 31));
        assert_eq!(c.of(11_016), (2000, 2, 29)); // 2000-02-29
        assert_eq!(weekday_sun0(11_016), 2); // a Tuesday
        assert_eq!(weekday_sun0(days_from_civil(2026, 10, 2)), 5); // a Friday
        c
    }
    #[inline]
    pub fn of(&self, n: i32) -> (i32, u32, u32) {
        if self.ymd.is_empty() {
            let (y, m, d) = civil_from_days(n as i64);
            return (y as i32, m, d);
        }
        let (y, m, d) = self.ymd[(n - MIN_DAY) as usize];
        (y as i32, m as u32, d as u32)
    }
    #[inline]
    pub fn valid_ymd(y: i64, m: u32, d: u32) -> bool {
        (1..=9999).contains(&y) && (1..=12).contains(&m) && d >= 1 && d <= dim(y, m)
    }
}

static CAL: OnceLock<Cal> = OnceLock::new();
static LIGHT: std::sync::atomic::AtomicBool = std::sync::atomic::AtomicBool::new(false);
/// sanitizer slices (Miri is ~1000x slower): no table, closed forms only (the table self-check runs in every native leg)
pub fn set_light_mode() {
    LIGHT.store(true, std::sync::atomic::Ordering::SeqCst);
}
pub fn cal() -> &'static Cal {
    CAL.get_or_init(|| if LIGHT.load(std::sync::atomic::Ordering::SeqCst) { Cal { ymd: vec![] } } else { Cal::build() })
}

/// Monday that starts ISO year `y`: Monday of the week containing 4 January.
pub fn iso_year_start(y: i64) -> i64 {
    let jan4 = days_from_civil(y, 1, 4);
    jan4 - weekday_mon0(jan4) as i64
}
