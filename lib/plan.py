"""Leg plan, coverage rules and assumptions per property (read by ./check)."""

def native(profile, tier, timeout):
    return {"kind": "native", "profile": profile, "tier": tier, "timeout": timeout, "name": "native-" + profile}

def miri(shards, timeout=1500):
    return {"kind": "miri", "tier": "san", "shards": shards, "timeout": timeout, "name": "miri"}

def asan(tier, timeout=1800):
    return {"kind": "asan", "tier": tier, "timeout": timeout, "name": "asan-chk"}

def valgrind(timeout=2400):
    return {"kind": "valgrind", "tier": "san", "timeout": timeout, "name": "valgrind-rel"}

QT, TT = 900, 7200
IDS = ["C%02d" % i for i in range(1, 20)]
PLAN = {}
for p in IDS:
    PLAN[p] = {
        "quick": [native("chk", "quick", QT), native("rel", "quick", QT)],
        "thorough": [native("chk", "thorough", TT), native("rel", "thorough", TT)],
    }
# every tier runs in both arithmetic profiles: wrapped arithmetic gives a wrong value instead of a panic
# memory-safety legs (unsafe blocks on the format / serde paths, "returns normally")
PLAN["C03"]["quick"] += [miri(1)]
PLAN["C03"]["thorough"] += [miri(16), asan("quick"), valgrind()]
PLAN["C04"]["thorough"] += [miri(8)]
PLAN["C15"]["quick"] += [miri(1)]
PLAN["C15"]["thorough"] += [miri(16), asan("quick")]

RULES = {
 "C01": "Enumeration: every in-range day number n (checked: try_from_days/extract/try_from_ymd/is_valid/day_of_week against an iterated calendar table cross-checked with closed forms; successor relation and ordering of n,n+1); out-of-range neighbours and i32 extremes; the full (year,month,day) validity grid incl. error kinds; seeded random pairs for Ord/Eq/Hash. A case is one day number / one triple / one pair; enumerated cases are distinct by index, random pairs by hash.",
 "C19": "Enumeration of every string up to length L (quick 4, thorough 5) over a 42-symbol picture alphabet, blank runs of every length, near-miss spellings, token-count limit sweeps, seeded random token sequences and random strings. Oracle: reference longest-match tokenizer (accept/reject + InvalidFormat kind) and, for accepted pictures, the text rendered for a probe timestamp with pairwise distinct fields compared with the reference renderer. A case is one picture string; random ones are distinct by hash of the string. Pictures whose status depends on whether lower-case 't' is the 'T' literal are counted as unspecified and not judged.",
}
ASSUMPTIONS = {
 "*": [
  "the harness reference models (R-CAL iterated table cross-checked against Hinnant closed forms at start-up; reference tokenizer/renderer/speller written from the property statements) are correct",
  "rustc/std, and the panic=unwind catch_unwind boundary, behave as documented",
  "held on the executions listed above only; nothing is claimed for inputs outside the listed strata",
 ],
}
