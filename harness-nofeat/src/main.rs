//! Default-feature twin of the digest workloads (see ../harness/src/digest.rs).
#[path = "../../harness/src/digest.rs"]
mod digest;

fn main() {
    let prop = std::env::args().nth(1).unwrap_or_default();
    let r = std::panic::catch_unwind(|| digest::digest(&prop));
    match r.unwrap_or(Some((0, 0))) {
        Some((0, 0)) => println!("{{\"property\": \"{}\", \"digest\": \"panicked\", \"values_folded\": 0}}", prop),
        Some((d, n)) => println!("{{\"property\": \"{}\", \"digest\": \"{:016x}\", \"values_folded\": {}}}", prop, d, n),
        None => {
            println!("{{\"property\": \"{}\", \"digest\": null}}", prop);
        }
    }
}
