//! C14 - scaling an interval by a float truncates toward zero and classifies bad operands.
use crate::core::*;
use crate::f64x::{abs_product, abs_quotient, decompose, Rat};
use crate::kinds;
use crate::pools::*;
use serde_json::Value;
use sqldatetime::{Error, IntervalDT, IntervalYM, Time};

kinds!(K { YmMul = "IntervalYM::mul_f64", YmDiv = "IntervalYM::div_f64", DtMul = "IntervalDT::mul_f64", DtDiv = "IntervalDT::div_f64", TmMul = "Time::mul_f64", TmDiv = "Time::div_f64" });
pub type C = G<K>;
impl Case for C {
    fn to_json(&self) -> Value {
        g_json(self.k.name(), self.a, self.b, self.c, self.f)
    }
}

fn call(st: &mut Stats, k: K, x: i64, f: f64) -> Result<i64, Error> {
    match k {
        K::YmMul => {
            st.op(Op::YM_mul_f64);
            let r = IntervalYM::try_from_months(x as i32).expect("ym").mul_f64(f);
            st.obs_r(Op::YM_mul_f64, &r);
            r.map(|v| v.months() as i64)
        }
        K::YmDiv => {
            st.op(Op::YM_div_f64);
            let r = IntervalYM::try_from_months(x as i32).expect("ym").div_f64(f);
            st.obs_r(Op::YM_div_f64, &r);
            r.map(|v| v.months() as i64)
        }
        K::DtMul => {
            st.op(Op::DT_mul_f64);
            let r = IntervalDT::try_from_usecs(x).expect("dt").mul_f64(f);
            st.obs_r(Op::DT_mul_f64, &r);
            r.map(|v| v.usecs())
        }
        K::DtDiv => {
            st.op(Op::DT_div_f64);
            let r = IntervalDT::try_from_usecs(x).expect("dt").div_f64(f);
            st.obs_r(Op::DT_div_f64, &r);
            r.map(|v| v.usecs())
        }
        K::TmMul => {
            st.op(Op::T_mul_f64);
            let r = Time::try_from_usecs(x).expect("time").mul_f64(f);
            st.obs_r(Op::T_mul_f64, &r);
            r.map(|v| v.usecs())
        }
        K::TmDiv => {
            st.op(Op::T_div_f64);
            let r = Time::try_from_usecs(x).expect("time").div_f64(f);
            st.obs_r(Op::T_div_f64, &r);
            r.map(|v| v.usecs())
        }
    }
}

pub fn check(st: &mut Stats, c: &C) {
    let (x, f) = (c.a, c.f);
    let name = c.k.name();
    let is_div = matches!(c.k, K::YmDiv | K::DtDiv | K::TmDiv);
    let lim: u128 = if matches!(c.k, K::YmMul | K::YmDiv) { YM_LIM as u128 } else { DT_LIM as u128 };
    let r = call(st, c.k, x, f);
    let show = || format!("{}({}, {:e} [{:#018x}])", name, x, f, f.to_bits());
    // ---- operand classification
    if f.is_nan() {
        if r != Err(Error::InvalidNumber) {
            st.fail(format!("C14/{}/nan-operand-not-invalid-number", name), format!("{} -> {:?}", show(), r));
        }
        return;
    }
    if is_div && f == 0.0 {
        if r != Err(Error::DivideByZero) {
            st.fail(format!("C14/{}/zero-divisor-not-divide-by-zero", name), format!("{} -> {:?}", show(), r));
        }
        return;
    }
    if f.is_infinite() {
        let exp = if is_div {
            Ok(0) // finite / inf = 0 exactly
        } else if x == 0 {
            Err(Error::InvalidNumber) // 0 * inf is NaN
        } else {
            Err(Error::NumericOverflow)
        };
        if r != exp {
            st.fail(format!("C14/{}/infinite-operand-misclassified", name), format!("{} -> {:?} expected {:?}", show(), r, exp));
        }
        return;
    }
    // ---- finite operands: exact rational magnitude
    let q: Rat = if is_div { abs_quotient(x.unsigned_abs() as u128, f) } else { abs_product(x.unsigned_abs() as u128, f) };
    let neg = (x < 0) != decompose(f).0 && x != 0;
    // a double-precision result is infinite when the magnitude reaches 2^1024 (rounding: from 2^1024 - 2^970)
    if q.ge_pow2(1023) {
        // far beyond any interval range; "infinite result => numeric overflow", but right at the f64 limit
        // the statement's two clauses (overflow / range error) overlap: accept both only in [2^1023, 2^1024)
        let ok = match &r {
            Err(Error::NumericOverflow) => true,
            Err(Error::IntervalOutOfRange) => !q.ge_pow2(1024),
            _ => false,
        };
        if !ok {
            st.fail(format!("C14/{}/overflowing-result-misclassified", name), format!("{} -> {:?}", show(), r));
        }
        if !q.ge_pow2(1024) {
            st.unspecified += 1;
        }
        return;
    }
    match r {
        Ok(v) => {
            let mag = v.unsigned_abs() as u128;
            if v != 0 && (v < 0) != neg {
                st.fail(format!("C14/{}/wrong-sign", name), format!("{} -> {}", show(), v));
                return;
            }
            // r = trunc(q~) for some q~ within relative 2^-52 of q:  r <= q(1+2^-52)  and  r+1 > q(1-2^-52).
            // For |x| >= 2^53 the operand itself is rounded when converted to double, so two roundings
            // compound to (1+2^-53)^2 - 1 > 2^-52: one more bit of slack there (looser = still sound).
            let kb = if x.unsigned_abs() >= (1u64 << 53) { 51 } else { 52 };
            if !q.int_le_scaled_up(mag, kb) || !q.int_gt_scaled_down(mag + 1, kb) {
                st.fail(
                    format!("C14/{}/not-the-truncated-real-result", name),
                    format!("{} -> {} but the real result has magnitude {:e}", show(), v, q.approx()),
                );
                return;
            }
            // exactness: integer multiplier and |x*k| < 2^53  =>  exactly x*k
            if !is_div && f.fract() == 0.0 && f.abs() < 9.3e18 {
                let k = f as i128;
                let p = x as i128 * k;
                if p.unsigned_abs() < (1u128 << 53) && v as i128 != p {
                    st.fail(format!("C14/{}/integer-product-not-exact", name), format!("{} -> {} expected {}", show(), v, p));
                }
            }
            if mag > lim {
                st.fail(format!("C14/{}/ok-although-out-of-range", name), format!("{} -> {}", show(), v));
            }
        }
        Err(Error::IntervalOutOfRange) => {
            // legitimate only if the (double-precision) real result can exceed the limit:
            // q(1+2^-52) >= lim  ... the sliver (lim, lim+1) is unspecified (truncate-then-check vs check-then-truncate)
            if !q.int_le_scaled_up(lim, 51) {
                // q(1+eps) < lim : surely in range
                st.fail(format!("C14/{}/range-error-although-in-range", name), format!("{}: real magnitude {:e} < limit {}", show(), q.approx(), lim));
            } else if q.lt_int(lim + 1) {
                st.unspecified += 1;
            }
        }
        Err(e) => {
            st.fail(format!("C14/{}/finite-operands-misclassified", name), format!("{} -> {:?} (real magnitude {:e})", show(), e, q.approx()));
        }
    }
    // a finite result clearly outside the range must be an interval-range error (checked above for Ok: mag > lim)
}

/// (-x)*k = -(x*k) = x*(-k), evaluated on the library's own outputs
fn symmetry(st: &mut Stats, c: &C) {
    let (x, f) = (c.a, c.f);
    if matches!(c.k, K::TmMul | K::TmDiv) {
        return; // a time of day has no negative counterpart
    }
    let a = call(st, c.k, x, f);
    let b = call(st, c.k, -x, f);
    let d = call(st, c.k, x, -f);
    let neg = |r: &Result<i64, Error>| r.clone().map(|v| -v);
    if neg(&a) != b || neg(&a) != d {
        st.fail(format!("C14/{}/sign-symmetry", c.k.name()), format!("{}({}, {:e}): x*k={:?} (-x)*k={:?} x*(-k)={:?}", c.k.name(), x, f, a, b, d));
    }
}

fn both(st: &mut Stats, c: &C) {
    check(st, c);
    symmetry(st, c);
}

pub fn run(ctx: &Ctx, st: &mut Stats) {
    let fs = {
        let mut v = f64_pool();
        for k in -10..=10 {
            v.push(k as f64);
        }
        for k in -60..=60 {
            v.push((2f64).powi(k));
            v.push(-(2f64).powi(k));
        }
        for d in [2_147_483_647.0, 2_147_483_648.0, 2_147_483_649.0, 3e9, 4e9, 4_294_967_295.0, 4_294_967_296.0, 4_294_967_297.0, 1e10, 1e12, 123_456_789_012.0, 9.007_199_254_740_992e15,
                  3.0, 7.0, 9.0, 11.0, 13.0, 49.0, 98.0, 103.0, 107.0, 161.0, 187.0, 1e3, 1e6, 86_400.0, 1e-3, 1e-6, 0.3, 0.7, 1.1, 1e22, 1e-22, 1e100, 1e-100, 8.4e298, 1e308, 1.7e308, 2.2e-308, 1e-320] {
            v.push(d);
            v.push(-d);
        }
        v
    };
    let yms: Vec<i64> = ym_pool().into_iter().map(|x| x as i64).collect();
    let dts = dt_pool();
    let tms = time_pool();
    st.stratum("pool x pool", true);
    for &f in &fs {
        for &x in &yms {
            st.eval(&C::af(K::YmMul, x, f), both);
            st.eval(&C::af(K::YmDiv, x, f), both);
        }
        for &x in &dts {
            st.eval(&C::af(K::DtMul, x, f), both);
            st.eval(&C::af(K::DtDiv, x, f), both);
        }
        for &x in &tms {
            st.eval(&C::af(K::TmMul, x, f), both);
            st.eval(&C::af(K::TmDiv, x, f), both);
        }
    }
    // operands aimed at the range edge: k = limit / x +- ulps
    st.stratum("range-edge multipliers", true);
    for &x in yms.iter().filter(|x| **x != 0) {
        let k = YM_LIM as f64 / x as f64;
        for u in -3i64..=3 {
            let f = f64::from_bits((k.to_bits() as i64 + u) as u64);
            st.eval(&C::af(K::YmMul, x, f), both);
            let dv = x as f64 / YM_LIM as f64;
            st.eval(&C::af(K::YmDiv, x, f64::from_bits((dv.to_bits() as i64 + u) as u64)), both);
        }
    }
    for &x in dts.iter().filter(|x| **x != 0) {
        let k = DT_LIM as f64 / x as f64;
        for u in -3i64..=3 {
            st.eval(&C::af(K::DtMul, x, f64::from_bits((k.to_bits() as i64 + u) as u64)), both);
            let dv = x as f64 / DT_LIM as f64;
            st.eval(&C::af(K::DtDiv, x, f64::from_bits((dv.to_bits() as i64 + u) as u64)), both);
        }
    }
    // results aimed at and just beyond the limit: limit + j units must never come back as a value
    st.stratum("multipliers aimed at limit + j", true);
    for &x in yms.iter().filter(|x| **x != 0) {
        for j in -2i64..=14 {
            let target = YM_LIM as f64 + j as f64;
            st.eval(&C::af(K::YmMul, x, target / x as f64), both);
            st.eval(&C::af(K::YmDiv, x, x as f64 / target), both);
            st.eval(&C::af(K::YmMul, x, (target + 0.5) / x as f64), both);
        }
    }
    for &x in dts.iter().filter(|x| **x != 0).chain(tms.iter().filter(|x| **x != 0)) {
        for j in [-1i64, 0, 1, 2, 1000, 1_000_000, 60_000_000, 3_600_000_000, DAY_US - 1, DAY_US, DAY_US + 1, 2 * DAY_US] {
            let target = DT_LIM as f64 + j as f64;
            let is_time = (0..DAY_US).contains(&x) && tms.contains(&x);
            st.eval(&C::af(if is_time { K::TmMul } else { K::DtMul }, x, target / x as f64), both);
            st.eval(&C::af(if is_time { K::TmDiv } else { K::DtDiv }, x, x as f64 / target), both);
        }
    }
    // exact small-integer products / quotients
    let lim = ctx.tier.pick(40, 2_000, 20_000);
    ctx.par(st, "small integers: x*k and (x*k)/k", true, 1, lim, |st, k, _| {
        for x in [1i64, 2, 3, 7, 12, 49, 100, 999_983, 86_400_000_000, (1 << 40) + 1] {
            st.eval(&C::af(K::DtMul, x, k as f64), both);
            st.eval(&C::af(K::DtDiv, x * k, k as f64), both);
            if x < 1_000_000 {
                st.eval(&C::af(K::YmMul, x, k as f64), both);
                if x * k <= YM_LIM as i64 {
                    st.eval(&C::af(K::YmDiv, x * k, k as f64), both);
                }
            }
            if x * k < DAY_US {
                st.eval(&C::af(K::TmDiv, x * k, k as f64), both);
            }
        }
    });
    // intervals above 2^53 us that are not doubles (the conversion rounds them) x infinite, huge and whole operands, both signs
    let nwi = ctx.tier.pick(100, 100_000, 1_000_000);
    ctx.par(st, "intervals above 2^53 us (not representable as doubles) x infinite / huge / whole operands", false, 0, nwi, |st, _, rng| {
        let x = rng.range_i64(1i64 << 53, DT_LIM) | 1;
        let x = if rng.chance(1, 2) { -x } else { x };
        let f = *rng.pick(&[f64::INFINITY, f64::NEG_INFINITY, f64::MAX, f64::MIN, 3.5e305, 1e306, 1000.0, -1000.0, 7.0, 3.0, 1e6, 86_400.0, 2.0, 1.0, -1.0, 1e-3, 0.5]);
        st.eval(&C::af(K::DtMul, x, f), both);
        st.eval(&C::af(K::DtDiv, x, f), both);
    });
    // every integer k up to the limit x operands whose whole seconds sit in the residue classes 0, 1, k-1 (mod k) with
    // fractions at both ends of the second and around the 32-bit marks of a microsecond count scaled by 10^6
    let lim2 = ctx.tier.pick(40, 6_000, 70_000);
    ctx.par(st, "integers k x operands in residue classes mod k with extreme fractions (Time and IntervalDT)", true, 1, lim2, |st, k, rng| {
        let fr = [0i64, 1, 483_647, 483_648, 499_999, 500_000, 999_992, 999_993, 999_999];
        for res in [0i64, 1, k - 1, k / 2] {
            let q = rng.range_i64(0, 86_399 / k.max(1));
            let secs = (q * k + res).clamp(0, 86_399);
            let f = *rng.pick(&fr);
            let x = secs * 1_000_000 + f;
            for kk in [k as f64, -(k as f64)] {
                st.eval(&C::af(K::TmMul, x, kk), both);
                st.eval(&C::af(K::TmDiv, x, kk), both);
                st.eval(&C::af(K::DtMul, x, kk), both);
                st.eval(&C::af(K::DtDiv, x, kk), both);
                let days = rng.range_i64(0, 40) * DAY_US;
                st.eval(&C::af(K::DtDiv, x + days, kk), both);
                st.eval(&C::af(K::DtDiv, -(x + days), kk), both);
            }
        }
        // all nine fractions of the last second before a multiple of k seconds
        if k <= 86_399 {
            for &f in &fr {
                let x = (k - 1).clamp(0, 86_399) * 1_000_000 + f;
                st.eval(&C::af(K::TmMul, x, k as f64), both);
                st.eval(&C::af(K::TmDiv, x, k as f64), both);
                st.eval(&C::af(K::TmMul, 59 * 1_000_000 + f, k as f64), both);
            }
        }
    });
    // results aimed just below / just above a whole number: this is where "truncates toward zero" is decided
    let na = ctx.tier.pick(300, 1_500_000, ctx.big(30_000_000, 150_000_000));
    ctx.par(st, "aimed: real result within 2^-50..1e-7 relative of a whole number", false, 0, na, |st, _, rng| {
        let k = *rng.pick(K::ALL);
        let is_div = matches!(k, K::YmDiv | K::DtDiv | K::TmDiv);
        let x = match k {
            K::YmMul | K::YmDiv => match rng.below(3) {
                0 => rng.range_i64(1, 200),
                1 => rng.range_i64(1, 100_000),
                _ => rng.range_i64(1, YM_LIM as i64),
            },
            K::DtMul | K::DtDiv => match rng.below(4) {
                0 => rng.range_i64(1, 5_000),
                1 => rng.range_i64(1, 10_000_000),
                2 => rng.range_i64(1, 400 * DAY_US),
                _ => rng.range_i64(1, DT_LIM),
            },
            _ => rng.range_i64(1, DAY_US - 1),
        };
        // target whole result n, relative nudge d
        let n = match rng.below(3) {
            0 => rng.range_i64(1, 2_000),
            1 => rng.range_i64(1, 5_000_000),
            _ => rng.range_i64(1, 1 << 40),
        } as f64;
        let d = *rng.pick(&[0.0, 2.3e-16, 4.5e-16, 1e-15, 1e-14, 1e-13, 5e-13, 1e-12, 1e-11, 1e-10, 1e-9, 1e-8, 1e-7]) * if rng.chance(1, 2) { -1.0 } else { 1.0 };
        let f = if is_div { (x as f64 / n) * (1.0 + d) } else { (n / x as f64) * (1.0 + d) };
        let x = if rng.chance(1, 2) && !matches!(k, K::TmMul | K::TmDiv) { -x } else { x };
        let f = if rng.chance(1, 4) { -f } else { f };
        let c = C::af(k, x, f);
        st.eval_h(c.hash(k as u64 + 31), &c, both);
    });
    // whole-number multipliers / divisors of every magnitude (integer fast paths, casts)
    let nw = ctx.tier.pick(300, 1_000_000, ctx.big(20_000_000, 100_000_000));
    ctx.par(st, "whole-number operands of every magnitude", false, 0, nw, |st, _, rng| {
        let k = *rng.pick(K::ALL);
        let bits = rng.below(63) as u32;
        let mut w = (rng.next() >> (63 - bits)) as f64;
        if rng.chance(1, 8) {
            w = *rng.pick(&[(1u64 << 31) as f64, (1u64 << 32) as f64, (1u64 << 31) as f64 + 1.0, (1u64 << 32) as f64 - 1.0, (1u64 << 53) as f64, (1u64 << 63) as f64, 65_536.0, 65_535.0, 16_777_216.0, 16_777_217.0]);
        }
        if rng.chance(1, 2) {
            w = -w;
        }
        let x = match k {
            K::YmMul | K::YmDiv => rng.range_i64(-(YM_LIM as i64), YM_LIM as i64),
            K::DtMul | K::DtDiv => {
                if rng.chance(1, 2) {
                    rng.range_i64(-DT_LIM, DT_LIM)
                } else {
                    rng.range_i64(-400 * DAY_US, 400 * DAY_US)
                }
            }
            _ => rng.range_i64(0, DAY_US - 1),
        };
        let c = C::af(k, x, w);
        st.eval_h(c.hash(k as u64 + 57), &c, both);
    });
    let n = ctx.tier.pick(1_000, 3_000_000, ctx.big(60_000_000, 250_000_000));
    ctx.par(st, "random/(interval, float)", false, 0, n, |st, _, rng| {
        let k = *rng.pick(K::ALL);
        let x = match k {
            K::YmMul | K::YmDiv => match rng.below(3) {
                0 => rng.range_i64(-(YM_LIM as i64), YM_LIM as i64),
                1 => rng.range_i64(-100_000, 100_000),
                _ => rng.range_i64(-200, 200),
            },
            K::DtMul | K::DtDiv => match rng.below(4) {
                0 => rng.range_i64(-DT_LIM, DT_LIM),
                1 => rng.range_i64(-(1 << 54), 1 << 54),
                2 => rng.range_i64(-400 * DAY_US, 400 * DAY_US),
                _ => rng.range_i64(-1_000_000, 1_000_000),
            },
            _ => rng.range_i64(0, DAY_US - 1),
        };
        let f = rand_f64(rng);
        let c = C::af(k, x, f);
        { let (an, td, ks) = crate::primers::g_context(c.a, c.b); crate::primers::eval_sched(st, rng, c.hash(k as u64), &c, &an, td, &ks, both); }
    });
}

pub fn replay(v: &Value, st: &mut Stats) -> bool {
    match K::from_name(&jstr(v, "kind")) {
        Some(k) => {
            st.eval(&C { k, a: ji64(v, "a"), b: ji64(v, "b"), c: ji64(v, "c"), f: jf64(v, "f") }, both);
            true
        }
        None => false,
    }
}
