//! R-F64: exact arithmetic for float operands (an f64 is m * 2^e with |m| < 2^53), using a tiny
//! arbitrary-precision unsigned integer so that no formula of the library is re-used.

use std::cmp::Ordering;

#[derive(Clone, Debug, PartialEq, Eq)]
pub struct Big(pub Vec<u64>); // little-endian limbs, no trailing zeros

impl Big {
    pub fn from_u128(x: u128) -> Big {
        let mut v = vec![x as u64, (x >> 64) as u64];
        while v.last() == Some(&0) {
            v.pop();
        }
        Big(v)
    }
    pub fn is_zero(&self) -> bool {
        self.0.is_empty()
    }
    pub fn mul(&self, o: &Big) -> Big {
        if self.is_zero() || o.is_zero() {
            return Big(vec![]);
        }
        let mut r = vec![0u64; self.0.len() + o.0.len()];
        for (i, &a) in self.0.iter().enumerate() {
            let mut carry: u128 = 0;
            for (j, &b) in o.0.iter().enumerate() {
                let cur = r[i + j] as u128 + (a as u128) * (b as u128) + carry;
                r[i + j] = cur as u64;
                carry = cur >> 64;
            }
            let mut k = i + o.0.len();
            while carry > 0 {
                let cur = r[k] as u128 + carry;
                r[k] = cur as u64;
                carry = cur >> 64;
                k += 1;
            }
        }
        while r.last() == Some(&0) {
            r.pop();
        }
        Big(r)
    }
    pub fn shl(&self, bits: u32) -> Big {
        if self.is_zero() {
            return Big(vec![]);
        }
        let limbs = (bits / 64) as usize;
        let b = bits % 64;
        let mut r = vec![0u64; limbs];
        let mut carry = 0u64;
        for &x in &self.0 {
            if b == 0 {
                r.push(x);
            } else {
                r.push((x << b) | carry);
                carry = x >> (64 - b);
            }
        }
        if carry > 0 {
            r.push(carry);
        }
        Big(r)
    }
    pub fn add(&self, o: &Big) -> Big {
        let n = self.0.len().max(o.0.len());
        let mut r = Vec::with_capacity(n + 1);
        let mut carry = 0u128;
        for i in 0..n {
            let cur = *self.0.get(i).unwrap_or(&0) as u128 + *o.0.get(i).unwrap_or(&0) as u128 + carry;
            r.push(cur as u64);
            carry = cur >> 64;
        }
        if carry > 0 {
            r.push(carry as u64);
        }
        Big(r)
    }
    pub fn bits(&self) -> u32 {
        match self.0.last() {
            None => 0,
            Some(&t) => (self.0.len() as u32 - 1) * 64 + (64 - t.leading_zeros()),
        }
    }
}
impl PartialOrd for Big {
    fn partial_cmp(&self, o: &Big) -> Option<Ordering> {
        Some(self.cmp(o))
    }
}
impl Ord for Big {
    fn cmp(&self, o: &Big) -> Ordering {
        if self.0.len() != o.0.len() {
            return self.0.len().cmp(&o.0.len());
        }
        for i in (0..self.0.len()).rev() {
            if self.0[i] != o.0[i] {
                return self.0[i].cmp(&o.0[i]);
            }
        }
        Ordering::Equal
    }
}

/// x = sign * mant * 2^exp exactly (x finite). mant < 2^53.
pub fn decompose(x: f64) -> (bool, u64, i32) {
    let bits = x.to_bits();
    let neg = bits >> 63 == 1;
    let e = ((bits >> 52) & 0x7ff) as i32;
    let f = bits & ((1u64 << 52) - 1);
    if e == 0 {
        (neg, f, -1074)
    } else {
        (neg, f | (1u64 << 52), e - 1075)
    }
}

/// A non-negative rational  num * 2^num_shift / (den * 2^den_shift)  with Big parts.
pub struct Rat {
    pub num: Big,
    pub den: Big,
}

/// |c| * |x|  as an exact rational
pub fn abs_product(c: u128, x: f64) -> Rat {
    let (_, m, e) = decompose(x);
    let n = Big::from_u128(c).mul(&Big::from_u128(m as u128));
    if e >= 0 {
        Rat { num: n.shl(e as u32), den: Big::from_u128(1) }
    } else {
        Rat { num: n, den: Big::from_u128(1).shl((-e) as u32) }
    }
}
/// |c| / |x|  as an exact rational (x != 0)
pub fn abs_quotient(c: u128, x: f64) -> Rat {
    let (_, m, e) = decompose(x);
    let mm = Big::from_u128(m as u128);
    if e >= 0 {
        Rat { num: Big::from_u128(c), den: mm.shl(e as u32) }
    } else {
        Rat { num: Big::from_u128(c).shl((-e) as u32), den: mm }
    }
}

impl Rat {
    /// is  r <= q * (1 + 2^-k) ?
    pub fn int_le_scaled_up(&self, r: u128, k: u32) -> bool {
        // r * den * 2^k <= num * (2^k + 1)
        let lhs = Big::from_u128(r).mul(&self.den).shl(k);
        let rhs = self.num.mul(&Big::from_u128(1).shl(k).add(&Big::from_u128(1)));
        lhs <= rhs
    }
    /// is  r > q * (1 - 2^-k) ?
    pub fn int_gt_scaled_down(&self, r: u128, k: u32) -> bool {
        // r * den * 2^k > num * (2^k - 1)
        let lhs = Big::from_u128(r).mul(&self.den).shl(k);
        let pk = (1u128 << k) - 1;
        let rhs = self.num.mul(&Big::from_u128(pk));
        lhs > rhs
    }
    /// q < n ?
    pub fn lt_int(&self, n: u128) -> bool {
        self.num < Big::from_u128(n).mul(&self.den)
    }
    /// q >= n ?
    pub fn ge_int(&self, n: u128) -> bool {
        !self.lt_int(n)
    }
    /// q >= 2^k ?
    pub fn ge_pow2(&self, k: u32) -> bool {
        self.num >= self.den.shl(k)
    }
    /// 2*|q - r| <= t  where t is given as rational t_num/t_den? Kept simple: |q - r| <= half + q*2^-k
    /// i.e.  r - 1/2 - q*2^-k <= q <= r + 1/2 + q*2^-k   (nearest-integer rounding with relative slack)
    pub fn nearest_within(&self, r: u128, k: u32) -> bool {
        // upper: q*(1 - 2^-k) <= r + 1/2   <=>  2*num*(2^k - 1) <= (2r+1) * den * 2^k
        let pk = Big::from_u128((1u128 << k) - 1);
        let up_l = self.num.mul(&pk).shl(1);
        let up_r = Big::from_u128(2 * r + 1).mul(&self.den).shl(k);
        if up_l > up_r {
            return false;
        }
        // lower: q*(1 + 2^-k) >= r - 1/2   <=>  2*num*(2^k + 1) >= (2r-1) * den * 2^k   (trivial if r == 0)
        if r == 0 {
            return true;
        }
        let pk1 = Big::from_u128((1u128 << k) + 1);
        let lo_l = self.num.mul(&pk1).shl(1);
        let lo_r = Big::from_u128(2 * r - 1).mul(&self.den).shl(k);
        lo_l >= lo_r
    }
    /// |q - delta| <= tol + q * 2^-k   (delta, tol non-negative integers in q's unit)
    pub fn within(&self, delta: u128, tol: u128, k: u32) -> bool {
        // q >= delta - tol - q*2^-k  <=>  q*(2^k + 1) >= (delta - tol) * 2^k      (skip if delta <= tol)
        // q <= delta + tol + q*2^-k  <=>  q*(2^k - 1) <= (delta + tol) * 2^k
        let pk = Big::from_u128(1).shl(k);
        let up_l = self.num.mul(&Big::from_u128((1u128 << k) - 1));
        let up_r = Big::from_u128(delta + tol).mul(&self.den).mul(&pk);
        if up_l > up_r {
            return false;
        }
        if delta > tol {
            let lo_l = self.num.mul(&Big::from_u128((1u128 << k) + 1));
            let lo_r = Big::from_u128(delta - tol).mul(&self.den).mul(&pk);
            if lo_l < lo_r {
                return false;
            }
        }
        true
    }
    /// 2*q as a new rational
    pub fn doubled(&self) -> Rat {
        Rat { num: self.num.shl(1), den: self.den.clone() }
    }
    pub fn is_zero(&self) -> bool {
        self.num.is_zero()
    }
    /// approximate value (for reports only)
    pub fn approx(&self) -> f64 {
        let nb = self.num.bits() as i32;
        let db = self.den.bits() as i32;
        let top = |b: &Big| -> f64 {
            let mut x = 0f64;
            for &l in b.0.iter().rev().take(2) {
                x = x * 18446744073709551616.0 + l as f64;
            }
            x
        };
        let nl = self.num.0.len() as i32;
        let dl = self.den.0.len() as i32;
        let _ = (nb, db);
        let n = top(&self.num);
        let d = top(&self.den);
        if d == 0.0 {
            return f64::INFINITY;
        }
        let shift = ((nl - 2).max(0) - (dl - 2).max(0)) * 64;
        (n / d) * (2f64).powi(shift)
    }
}

#[cfg(test)]
mod tests {
    use super::*;
    #[test]
    fn basics() {
        let q = abs_product(3, 0.5);
        assert!(q.lt_int(2) && q.ge_int(1));
        let q = abs_quotient(10, 4.0);
        assert!(q.int_le_scaled_up(2, 52) && q.int_gt_scaled_down(3, 52));
        assert!(abs_product(1, 1e300).ge_pow2(900));
    }
}
