//! C02 (every produced value is in range) and C03 (no safe call panics): both are observed by monitors
//! that run inside *every* workload (range monitor / panic boundary). Their drivers therefore run the
//! other properties' workloads - which between them call every catalogued operation on boundary pools,
//! scalar extremes and generated inputs - plus hostile strata of their own, and keep only the events
//! that concern them.
use crate::core::*;
use crate::props;

const PARTS: [&str; 17] = ["C04", "C05", "C06", "C15", "C19", "C18", "C01", "C07", "C08", "C09", "C10", "C11", "C12", "C13", "C14", "C16", "C17"];

/// runs the listed drivers; findings are kept only if `keep(key)`
pub fn compose(ctx: &Ctx, st: &mut Stats, keep: &dyn Fn(&str) -> bool) {
    for p in PARTS {
        // sanitizer slices (Miri is ~1000x slower): only the drivers whose calls reach code with real memory
        // unsafety (StackVec/StackStr, from_utf8_unchecked, Lazy statics, serde). The arithmetic types are
        // integer newtypes whose only `unsafe` is an unchecked newtype constructor - nothing Miri could flag.
        if ctx.tier == Tier::San && !["C04", "C05", "C06", "C15", "C19"].contains(&p) {
            continue;
        }
        let sub = Ctx { prop: p.to_string(), light: true, ..ctx.clone() };
        let mut s = Stats::new();
        s.seq_shard = ctx.shard;
        props::run_one(&sub, &mut s);
        s.finish();
        // prefix strata with the driver they came from
        let strata = std::mem::take(&mut s.strata);
        for (k, v) in strata {
            s.strata.insert(format!("{}: {}", p, k), v);
        }
        let findings = std::mem::take(&mut s.findings);
        for (k, f) in findings {
            if keep(&k) {
                s.findings.insert(k, f);
            } else {
                s.bumpn("events_of_other_properties_ignored_here", f.count);
            }
        }
        s.samples.truncate(3);
        // hashes are per-driver sets; keep them (distinct cases of different drivers are different cases)
        st.merge(s);
    }
}

pub fn range_related(key: &str) -> bool {
    key.starts_with("range/")
        || key.starts_with("panic@")
        || key.contains("ok-although")
        || key.contains("accepts-out-of-range")
        || key.contains("accepts-invalid")
        || key.contains("out-of-range-value")
        || key.contains("accepts-non-date")
        || key.contains("constructor-accepts")
}

/// An integer handed to a type's serde visitors in another wire width (self-describing binary formats deliver
/// integers by width: i64, u64, i32, u32). width code: 0 = i64, 1 = u64, 2 = i32, 3 = u32.
pub struct Wire {
    pub ty: crate::tok::Ty,
    pub v: i64,
    pub width: u8,
}
impl Case for Wire {
    fn to_json(&self) -> serde_json::Value {
        serde_json::json!({"kind": "wire-integer-any-type", "type": self.ty.name(), "v": self.v, "width": self.width})
    }
}
pub fn check_wire(st: &mut Stats, c: &Wire) {
    use crate::tok::{Ty, LV};
    use serde::de::IntoDeserializer;
    use serde::Deserialize;
    use sqldatetime::{Date, IntervalDT, IntervalYM, OracleDate, Time, Timestamp};
    type E = serde::de::value::Error;
    macro_rules! de {
        ($t:ty, $wrap:expr) => {
            match c.width {
                0 => <$t>::deserialize(IntoDeserializer::<E>::into_deserializer(c.v)).map($wrap),
                1 => <$t>::deserialize(IntoDeserializer::<E>::into_deserializer(c.v as u64)).map($wrap),
                2 => <$t>::deserialize(IntoDeserializer::<E>::into_deserializer(c.v as i32)).map($wrap),
                _ => <$t>::deserialize(IntoDeserializer::<E>::into_deserializer(c.v as u32)).map($wrap),
            }
        };
    }
    st.op(Op::S_bin_de);
    let r: Result<LV, E> = match c.ty {
        Ty::Date => de!(Date, LV::Date),
        Ty::Time => de!(Time, LV::Time),
        Ty::Ts => de!(Timestamp, LV::Ts),
        Ty::Ora => de!(OracleDate, LV::Ora),
        Ty::YM => de!(IntervalYM, LV::YM),
        Ty::DT => de!(IntervalDT, LV::DT),
    };
    let denoted: i128 = match c.width {
        0 => c.v as i128,
        1 => c.v as u64 as i128,
        2 => c.v as i32 as i128,
        _ => c.v as u32 as i128,
    };
    if let Ok(lv) = r {
        crate::props::c05::obs_lv(st, Op::S_bin_de, &lv);
        // a count the type cannot hold must be refused, "never returned as a wrapped, clamped or otherwise invalid value"
        if lv.raw() as i128 != denoted {
            st.fail("range/wire-integer/out-of-range-count-returned-as-a-wrapped-value", format!("{} from the integer {} (width code {}): got raw {} = {}", c.ty.name(), denoted, c.width, lv.raw(), lv.to_v().show()));
        }
    }
}

pub fn run(ctx: &Ctx, st: &mut Stats) {
    compose(ctx, st, &range_related);
    // own stratum: raw counts arriving in other integer widths
    let n = ctx.tier.pick(600, 600_000, 6_000_000);
    ctx.par(st, "C02: raw counts as 64/32-bit signed/unsigned wire integers through the serde visitors, all six types", false, 0, n, |st, i, rng| {
        use crate::tok::ALL_TY;
        let ty = ALL_TY[(i % 6) as usize];
        let lo32 = rng.next() as i32 as i64;
        let v = match rng.below(6) {
            0 => rng.next() as i64,
            1 => (rng.next() as i64) >> rng.below(40),
            2 => ((rng.next() as i32 as i64) << 32).wrapping_add(rng.range_i64(MIN_DAY as i64, MAX_DAY as i64)),
            3 => i64::MIN.wrapping_add(rng.range_i64(-DT_LIM, DT_LIM)),
            4 => *rng.pick(&[i64::MIN, i64::MAX, -1, 0, 1, u32::MAX as i64, u32::MAX as i64 + 1, i32::MIN as i64, -5]),
            _ => lo32,
        };
        let width = (i / 6 % 4) as u8;
        st.eval_h(mix(v as u64, ty as u64 * 4 + width as u64), &Wire { ty, v, width }, check_wire);
    });
}

pub fn replay_wire(v: &serde_json::Value, st: &mut Stats) -> bool {
    if jstr(v, "kind") != "wire-integer-any-type" {
        return false;
    }
    match crate::tok::Ty::from_name(&jstr(v, "type")) {
        Some(ty) => {
            st.eval(&Wire { ty, v: ji64(v, "v"), width: ji64(v, "width") as u8 }, check_wire);
            true
        }
        None => false,
    }
}
